"""C20 — any input produces diagnostics, never an internal failure (small partial).

R20.1  bounded fix-points: every loop that re-queues deferred work (semantic-analysis deferral,
       class-hook passes, fine-grained propagation) increments a counter on every iteration and
       compares it with a constant on every iteration, leaving the loop when the bound is hit; the
       type checker defers a node only while pass_num < last_pass and every second pass increments
       pass_num.
R12.3  (shared with C12) partial arithmetic operators in the constant folders are guarded: an
       unguarded one is an input-triggered crash or hang.
R20.3  no deferral in the final iteration: SemanticAnalyzer.defer asserts `not final_iteration`
       (an AssertionError is an INTERNAL ERROR for the user), so a deferral that is triggered by
       *seeing a placeholder* (isinstance(.., PlaceholderNode/PlaceholderType), has_placeholder(..))
       must also be conditional on not being in the final iteration, or go through
       process_placeholder, which reports a cyclic definition instead. Sites confirmed by a
       crashing input are findings; sites for which no input was found are tabled (unproven).
R20.4  an index variable that takes different integer constants on different paths (arg_index = 0
       / 1, next_group = 0 / += 1) and then subscripts a sequence is compared with len() of that
       very sequence in the guard of the access; an unguarded access is an IndexError for the input
       whose sequence is shorter (INTERNAL ERROR).
R20.2  inventory (evidence only): explicit `raise` of non-CompileError classes and `assert`s in the
       anchored modules, so that a change adding one is visible.
"""

from __future__ import annotations

import ast
from collections import Counter

from ..cfg import CFG, call_name
from ..index import AnalysisError, get_index, norm, walk_no_nested
from ..report import Check
from .c12 import FOLDER_MODULES, check_folder, guard_chain

REQUEUE_CALLS = {"semantic_analyze_target", "apply_hooks_to_class", "reprocess_nodes"}
LOOP_MODULES = ("mypy.semanal_main", "mypy.server.update", "mypy.build", "mypy.semanal", "mypy.checker")
ANCHOR_MODULES = ("mypy.semanal", "mypy.semanal_main", "mypy.typeanal", "mypy.checker", "mypy.checkexpr", "mypy.errors", "mypy.build", "mypy.fastparse", "mypy.server.update")


def const_int(ix, m, e: ast.expr):
    try:
        v = ix.const_eval(m, e)
    except AnalysisError:
        return None
    return v if isinstance(v, int) and not isinstance(v, bool) else None


def run(chk: Check) -> None:
    ix = get_index()
    run_final_iteration(chk, ix)
    run_index_guards(chk, ix)

    r1 = chk.rule("R20.1", "every loop that re-queues deferred work has a per-iteration counter compared with a constant bound that exits the loop; type-checker deferral is limited by pass_num < last_pass", floor=7)
    n_loops = 0
    for modname in LOOP_MODULES:
        m = ix.module(modname)
        for f in [*m.functions.values(), *[mm for c in m.classes.values() for mm in c.methods.values()]]:
            loops = [n for n in walk_no_nested(f.node) if isinstance(n, ast.While)]
            for lp in loops:
                direct = {call_name(c) for s in lp.body for c in ast.walk(s) if isinstance(c, ast.Call)}
                # calls inside nested while loops belong to the inner loop too; keep both
                hit = direct & REQUEUE_CALLS
                if not hit:
                    continue
                inner_only = all(
                    any(isinstance(w, ast.While) and any(isinstance(c, ast.Call) and call_name(c) == h for c in ast.walk(w)) for s in lp.body for w in ast.walk(s))
                    for h in hit
                )
                n_loops += 1
                key = f"{f.qualname}: while {norm(lp.test)[:40]} (re-queues via {sorted(hit)})"
                verdict = counter_bound(ix, f, lp)
                if verdict is True:
                    r1.ok(key, f.loc(lp))
                elif inner_only and shrinking_only(lp):
                    r1.ok(key, f.loc(lp), "inner work-list loop: pops from a list it never extends")
                else:
                    # an inner loop that only drains a list filled before it is bounded by the outer loop
                    inner = drains_only(lp)
                    if inner:
                        r1.ok(key, f.loc(lp), f"drains `{inner}` without refilling it; re-queued items go to another list handled by the enclosing bounded loop")
                    else:
                        r1.violation(key, f.loc(lp), f"loop re-queues work but has no per-iteration counter compared with a constant bound: {verdict}")
    if n_loops < 4:
        raise AnalysisError(f"only {n_loops} re-queueing loops found")
    # type checker: pass bound
    tc = ix.cls("mypy.checker.TypeChecker")
    csp = tc.methods.get("check_second_pass")
    if csp is None:
        raise AnalysisError("TypeChecker.check_second_pass vanished")
    g = CFG(csp.node)
    incs = [n for n in g.nodes if n.kind == "stmt" and isinstance(n.stmt, ast.AugAssign) and norm(n.stmt.target) == "self.pass_num" and isinstance(n.stmt.op, ast.Add)]
    trues = [n for n in g.nodes if n.kind == "stmt" and isinstance(n.stmt, ast.Return) and isinstance(n.stmt.value, ast.Constant) and n.stmt.value.value is True]
    if incs and trues and all(g.must_pass(g.entry, [t], incs, labels_excluded=("exc",)) for t in trues):
        r1.ok("TypeChecker.check_second_pass: pass_num incremented on every path that reports deferred work", csp.loc(incs[0].stmt))
    else:
        r1.violation("TypeChecker.check_second_pass: pass_num incremented on every path that reports deferred work", csp.loc(), "a second pass can report more deferred work without consuming a pass: the build's `while unfinished_modules` loop has no other bound")
    n_defer = 0
    for q, f in ix.functions.items():
        if f.parent is not None or not f.module.name.startswith("mypy."):
            continue
        for n in ast.walk(f.node):
            if isinstance(n, ast.Call) and isinstance(n.func, ast.Attribute) and n.func.attr == "defer_node" and q != "mypy.checker.TypeChecker.defer_node":
                n_defer += 1
                texts = [norm(c) for c in guard_chain(f, n)[0]]
                key = f"{q}: defer_node under [{' ; '.join(t[:40] for t in texts)}]"
                if any(t.replace("chk.", "").replace("self.", "") == "pass_num < last_pass" for t in texts):
                    r1.ok(key, f.loc(n))
                else:
                    r1.violation(key, f.loc(n), "a node is deferred without the `pass_num < last_pass` guard: deferral can repeat forever")
            if isinstance(n, ast.Call) and isinstance(n.func, ast.Attribute) and n.func.attr in ("append", "extend", "insert") and norm(n.func.value).endswith("deferred_nodes"):
                key = f"{q}: writes deferred_nodes"
                if q == "mypy.checker.TypeChecker.defer_node":
                    r1.ok(key, f.loc(n))
                else:
                    r1.violation(key, f.loc(n), "deferred_nodes is extended outside defer_node (bypasses the pass bound)")
    if n_defer < 2:
        raise AnalysisError("defer_node call sites not found")
    lp_const = const_int(ix, ix.module("mypy.checker"), ast.Name(id="DEFAULT_LAST_PASS", ctx=ast.Load()))
    if isinstance(lp_const, int) and 0 < lp_const < 100:
        r1.ok("DEFAULT_LAST_PASS is a small positive constant", "mypy/checker.py", str(lp_const))
    else:
        r1.violation("DEFAULT_LAST_PASS is a small positive constant", "mypy/checker.py", f"value {lp_const}")

    r3 = chk.rule("R12.3", "(shared with C12) partial operators in the constant folders are guarded against every failure precondition: no input constant expression can crash or hang folding", floor=12)
    for modname in FOLDER_MODULES:
        for f in ix.module(modname).functions.values():
            check_folder(f, r3)

    r2 = chk.rule("R20.2", "(inventory, evidence only) explicit raises of non-CompileError classes and asserts in the anchored modules", floor=0)
    inv = {}
    for modname in ANCHOR_MODULES:
        m = ix.module(modname)
        c = Counter()
        for n in ast.walk(m.tree):
            if isinstance(n, ast.Raise) and n.exc is not None:
                e = n.exc.func if isinstance(n.exc, ast.Call) else n.exc
                nm = norm(e).split(".")[-1]
                if nm not in ("CompileError",):
                    c[nm] += 1
            elif isinstance(n, ast.Assert):
                c["assert"] += 1
        inv[modname] = dict(c)
        r2.info(f"{modname}", m.relpath, ", ".join(f"{k}={v}" for k, v in sorted(c.items())))
    chk.extra["raise_inventory"] = inv


def counter_bound(ix, f, lp: ast.While):
    """True if the loop has `X += 1` and a comparison of X with a constant, both on every iteration,
    the comparison leading out of the loop (break / raise / return / assert); else a reason string."""
    g = CFG(f.node)
    heads = [n for n in g.nodes if n.kind == "test" and n.stmt is lp]
    if not heads:
        return "loop head not found in CFG"
    head = heads[0]
    body_nodes = set()
    for s in lp.body:
        for x in ast.walk(s):
            for n in g.nodes_of(x):
                body_nodes.add(n)
    incs = [n for n in body_nodes if n.kind == "stmt" and isinstance(n.stmt, ast.AugAssign) and isinstance(n.stmt.op, ast.Add) and isinstance(n.stmt.target, ast.Name)]
    if not incs:
        return "no `counter += 1` in the loop body"
    tsucc = [m for m, lab in head.succ if lab == "true"]
    reasons = []
    for inc in incs:
        var = inc.stmt.target.id
        # every way round the loop passes the increment
        if not all(g.must_pass(x, [head], [inc], labels_excluded=("exc",)) for x in tsucc):
            reasons.append(f"`{var} += 1` is not executed on every iteration")
            continue
        # the bound test
        cands = []
        for n in body_nodes | {head}:
            exprs = []
            if n.kind == "test":
                exprs = [n.exprs[0]]
            elif n.kind == "stmt" and isinstance(n.stmt, ast.Assert):
                exprs = [n.stmt.test]
            for e in exprs:
                for c in ast.walk(e):
                    if isinstance(c, ast.Compare) and len(c.ops) == 1 and isinstance(c.left, ast.Name) and c.left.id == var and isinstance(c.ops[0], (ast.Gt, ast.GtE, ast.Eq, ast.Lt, ast.LtE)):
                        bound = const_int(ix, f.module, c.comparators[0])
                        if bound is not None:
                            cands.append((n, c, bound))
        if not cands:
            reasons.append(f"`{var}` is never compared with a constant")
            continue
        for n, c, bound in cands:
            on_every = n is head or all(g.must_pass(x, [head], [n], labels_excluded=("exc",)) for x in tsucc)
            if not on_every:
                reasons.append(f"the comparison `{norm(c)}` is not evaluated on every iteration")
                continue
            if n.kind == "stmt":  # assert: failing leaves the loop by raising
                return True
            # one branch of the test must leave the loop without coming back to the head
            for m, lab in n.succ:
                if lab in ("true", "false"):
                    r = g.reachable([m], avoiding=[head], labels_excluded=())
                    leaves = (g.exit in r or g.raise_exit in r or any(x not in body_nodes and x is not head for x in r))
                    comes_back = head in g.reachable([m], labels_excluded=("exc",)) and not any(isinstance(x.stmt, (ast.Break, ast.Raise, ast.Return)) and x.kind == "stmt" for x in g.reachable([m], avoiding=[head], labels_excluded=("exc",)) if x in body_nodes)
                    first = [x for x in g.reachable([m], avoiding=[head], labels_excluded=("exc",)) if x in body_nodes and x.kind == "stmt" and isinstance(x.stmt, (ast.Break, ast.Raise, ast.Return))]
                    if first and must_exit(g, m, head, body_nodes):
                        return True
            if n is head:
                return True
            reasons.append(f"neither branch of `{norm(c)}` is forced to leave the loop")
    return "; ".join(reasons) or "no counter pattern"


def must_exit(g: CFG, start, head, body_nodes) -> bool:
    """From `start`, control cannot return to the loop head (every path leaves the loop)."""
    r = g.reachable([start], labels_excluded=("exc",))
    return head not in r


def shrinking_only(lp: ast.While) -> bool:
    return bool(drains_only(lp))


def drains_only(lp: ast.While):
    """`while L: x = L.pop() ...` with no append/extend/+= to L inside: returns L's name."""
    t = lp.test
    if not isinstance(t, ast.Name):
        return None
    name = t.id
    pops = False
    for n in ast.walk(lp):
        if isinstance(n, ast.Call) and isinstance(n.func, ast.Attribute) and isinstance(n.func.value, ast.Name) and n.func.value.id == name:
            if n.func.attr in ("pop", "popleft"):
                pops = True
            if n.func.attr in ("append", "extend", "insert", "add", "update"):
                return None
        if isinstance(n, (ast.Assign, ast.AugAssign)):
            tg = n.targets if isinstance(n, ast.Assign) else [n.target]
            if any(isinstance(x, ast.Name) and x.id == name for x in tg):
                return None
    return name if pops else None


DEFER_CALLS = {"defer", "mark_incomplete", "record_incomplete_ref"}
DEFER_MODULES = ("mypy.semanal", "mypy.typeanal", "mypy.semanal_namedtuple", "mypy.semanal_typeddict", "mypy.semanal_enum", "mypy.semanal_newtype", "mypy.semanal_shared")


def run_final_iteration(chk: Check, ix) -> None:
    from ..cfg import branch_conditions
    r3 = chk.rule("R20.3", "a deferral triggered by the presence of a placeholder is conditional on not being in the final iteration of semantic analysis (defer() asserts that; an assertion failure is an internal error)", floor=8)
    sa = ix.cls("mypy.semanal.SemanticAnalyzer")
    d = sa.methods.get("defer")
    if d is None or not any(isinstance(a, ast.Assert) and "final_iteration" in norm(a.test) for a in ast.walk(d.node)):
        r3.info("SemanticAnalyzer.defer no longer asserts `not final_iteration`", sa.module.relpath, "the rule has no crash point to protect")
        return
    n = 0
    for modname in DEFER_MODULES:
        if modname not in ix.modules:
            continue
        m = ix.module(modname)
        par = m.parents()
        for q, f in sorted(ix.functions.items()):
            if f.module is not m or f.parent is not None or f.name in DEFER_CALLS:
                continue
            seen_keys = {}
            for c in ast.walk(f.node):
                if not (isinstance(c, ast.Call) and isinstance(c.func, ast.Attribute) and c.func.attr in DEFER_CALLS and norm(c.func.value) in ("self", "self.api")):
                    continue
                st = c
                while not isinstance(st, ast.stmt):
                    st = par[st]
                pos, neg = branch_conditions(par, f.node, st)
                conds = [norm(t) for t in pos] + ["not (" + norm(t) + ")" for t in neg]
                ph = [t for t in [norm(x) for x in pos] if "PlaceholderNode" in t or "PlaceholderType" in t or "has_placeholder(" in t]
                if not ph:
                    continue
                n += 1
                base = f"{q}: {norm(c.func)}() when {ph[0][:70]}"
                k = seen_keys.get(base, 0) + 1
                seen_keys[base] = k
                key = base if k == 1 else f"{base} #{k}"
                if any("final_iteration" in t for t in conds):
                    r3.ok(key, f.loc(c), "also conditional on final_iteration")
                else:
                    r3.violation(key, f.loc(c), "seeing a placeholder leads to a deferral with no regard to final_iteration: on a cyclic definition the placeholder is still there in the final iteration, defer() hits `assert not self.final_iteration` and the user gets INTERNAL ERROR instead of a diagnostic")
            # a "please defer" flag handed to the caller: `return .., True, ..` under a placeholder test
            for rt in ast.walk(f.node):
                if not (isinstance(rt, ast.Return) and isinstance(rt.value, ast.Tuple) and any(isinstance(e, ast.Constant) and e.value is True for e in rt.value.elts)):
                    continue
                conj, _h = guard_chain(f, rt, early_exits=True)
                texts = [norm(t) for t in conj]
                ph = [t for t in texts if ("PlaceholderNode" in t or "PlaceholderType" in t or "has_placeholder(" in t) and not t.startswith("not ")]
                if not ph or "defer" not in (ast.get_docstring(f.node) or "").lower():
                    continue
                n += 1
                key = f"{q}: returns `defer` when {ph[0][:70]}"
                if any("final_iteration" in t for t in texts):
                    r3.ok(key, f.loc(rt), "also conditional on final_iteration")
                else:
                    r3.violation(key, f.loc(rt), "the caller is told to defer because a placeholder was seen, with no regard to final_iteration: on a cyclic definition defer() hits its assertion (INTERNAL ERROR)")
    if n < 8:
        raise AnalysisError(f"only {n} placeholder-triggered deferral sites found")


def run_index_guards(chk: Check, ix) -> None:
    r4 = chk.rule("R20.4", "a subscript whose index is a local that is assigned different integer constants on different paths is guarded by a comparison of that local with len() of the subscripted sequence", floor=2)
    n = 0
    for q, f in sorted(ix.functions.items()):
        mn = f.module.name
        if f.parent is not None or not mn.startswith("mypy.") or ".test" in mn or mn.startswith(("mypy.stub", "mypy.dmypy")):
            continue
        asg: dict[str, list] = {}
        for a in ast.walk(f.node):
            if isinstance(a, ast.Assign) and len(a.targets) == 1 and isinstance(a.targets[0], ast.Name):
                asg.setdefault(a.targets[0].id, []).append(a.value)
        idxvars = {v for v, vals in asg.items() if len(vals) >= 2 and all(isinstance(x, ast.Constant) and isinstance(x.value, int) and not isinstance(x.value, bool) for x in vals)}
        if not idxvars:
            continue
        par = f.module.parents()
        for sub in ast.walk(f.node):
            if not (isinstance(sub, ast.Subscript) and isinstance(sub.slice, ast.Name) and sub.slice.id in idxvars and isinstance(sub.ctx, ast.Load)):
                continue
            n += 1
            conj, _h = guard_chain(f, sub, early_exits=True)
            texts = [norm(c) for c in conj]
            p_ = par.get(sub)
            while p_ is not None and not isinstance(p_, ast.stmt):
                if isinstance(p_, ast.BoolOp) and isinstance(p_.op, ast.And):
                    # earlier conjuncts of the same `and` guard the later ones
                    for v in p_.values:
                        if any(x is sub for x in ast.walk(v)):
                            break
                        texts.append(norm(v))
                p_ = par.get(p_)
            want = f"len({norm(sub.value)})"
            key = f"{q}: {norm(sub)} guarded by a comparison of {sub.slice.id} with {want}"
            if any(want in t and sub.slice.id in t for t in texts):
                r4.ok(key, f.loc(sub))
            else:
                r4.violation(key, f.loc(sub), f"`{sub.slice.id}` takes several constant values but the access is not range-checked against {want}: an input whose sequence is shorter raises IndexError, i.e. INTERNAL ERROR (or a dead daemon)")
    if n < 2:
        raise AnalysisError(f"only {n} constant-index-variable subscripts found")
