"""C02 — warm-cache runs equal cold runs (partial).

R02.1  validity gates: in find_cache_meta / validate_meta every accepting return is preceded, on
       every path, by a rejecting comparison of each required cache-meta field with its freshly
       computed value (or by a named bypass), and the comparison has rejecting polarity.
R02.2  SCC freshness is the conjunction of its three tests (truth-table evaluation of `fresh`);
       every SCC goes to exactly one of fresh_sccs / stale_sccs.
R02.3  State.is_fresh conjuncts.
R02.4  errors of fresh modules are replayed.
R02.5  writer/validator source agreement for each gate field.
R02.6  the indirect-dependency visitor reaches every type component (component matrix row) and
       patch_indirect_dependencies follows type checking.
R02.7  CacheMeta / CacheMetaEx / State serializer quadruples: instances of C11's R11.1-R11.4.
"""

from __future__ import annotations

import ast

from ..cfg import CFG, call_name
from ..index import AnalysisError, get_index, norm
from ..matrix import coverage
from ..report import Check
from .c12 import guard_chain

REQUIRED_FIND = {
    "version_id": "skip_version_check",
    "options": None,
    "plugin_data": None,
    "dep_prios": None,
    "dep_lines": None,
}
REQUIRED_VALIDATE = {
    "ignore_all": None,
    "data_mtime": "skip_cache_mtime_checks",
    "size": "bazel|fine_grained_cache",
}


def meta_aliases(func: ast.AST, meta_names: set[str]) -> dict[str, set[str]]:
    """local name -> set of meta fields it was computed from (one step and transitively)."""
    out: dict[str, set[str]] = {}
    changed = True
    while changed:
        changed = False
        for n in ast.walk(func):
            if isinstance(n, ast.Assign) and len(n.targets) == 1 and isinstance(n.targets[0], ast.Name):
                fields = fields_in(n.value, meta_names, out)
                if fields and not fields <= out.get(n.targets[0].id, set()):
                    out.setdefault(n.targets[0].id, set()).update(fields)
                    changed = True
    return out


def fields_in(e: ast.AST, meta_names: set[str], aliases: dict[str, set[str]]) -> set[str]:
    out = set()
    for x in ast.walk(e):
        if isinstance(x, ast.Attribute) and isinstance(x.value, ast.Name) and x.value.id in meta_names:
            out.add(x.attr)
        elif isinstance(x, ast.Name) and x.id in aliases:
            out |= aliases[x.id]
    return out


def has_rejecting_polarity(test: ast.expr, field: str, meta_names, aliases) -> bool:
    """Some comparison in the test that mentions the field is != (or a negated ==)."""
    for n in ast.walk(test):
        if isinstance(n, ast.Compare) and field in fields_in(n, meta_names, aliases):
            if any(isinstance(o, (ast.NotEq, ast.IsNot)) for o in n.ops):  # an ordering test would accept one direction of mismatch
                return True
        if isinstance(n, ast.UnaryOp) and isinstance(n.op, ast.Not) and isinstance(n.operand, ast.Compare) and field in fields_in(n.operand, meta_names, aliases):
            return True
    # truthiness gate:  `if meta.ignore_all and not ignore_all`
    if isinstance(test, ast.BoolOp) and isinstance(test.op, ast.And) and field in fields_in(test, meta_names, aliases):
        return True
    return False


def analyse_gates(f, meta_names: set[str]):
    g = CFG(f.node)
    accepts = [n for n in g.nodes if n.kind == "stmt" and isinstance(n.stmt, ast.Return) and n.stmt.value is not None and not (isinstance(n.stmt.value, ast.Constant) and n.stmt.value.value is None)]
    aliases = meta_aliases(f.node, meta_names)
    gates = []
    for t in g.nodes:
        if t.kind != "test":
            continue
        for lab in ("true", "false"):
            succ = [m for m, l in t.succ if l == lab]
            if not succ:
                continue
            r = g.reachable(succ, labels_excluded=("exc",))
            if not any(a in r for a in accepts) and any(n.kind == "stmt" and isinstance(n.stmt, ast.Return) for n in r):
                gates.append((t, lab, fields_in(t.exprs[0], meta_names, aliases)))
    return g, accepts, gates, aliases


def run(chk: Check) -> None:
    ix = get_index()

    r1 = chk.rule("R02.1", "every accepting return of find_cache_meta / validate_meta is preceded on every path by a rejecting comparison of each required meta field with its fresh value (or by its named bypass)", floor=12)
    # ---- find_cache_meta
    fcm = ix.func("mypy.build.find_cache_meta")
    g, accepts, gates, aliases = analyse_gates(fcm, {"m"})
    if not accepts:
        raise AnalysisError("find_cache_meta has no accepting return")
    chk.extra["find_cache_meta_gates"] = [f"{norm(t.exprs[0])[:70]} rejects on {lab}; fields {sorted(fs)}" for t, lab, fs in gates]
    for a in accepts:
        texts = [norm(c) for c in guard_chain(fcm, a.stmt)[0]]
        if "skip_validation" in texts:
            # the documented bypass for parallel workers; must be guarded by the assertion
            asserts = [n for n in g.nodes if n.kind == "stmt" and isinstance(n.stmt, ast.Assert) and norm(n.stmt.test) == "manager.parallel_worker"]
            if asserts and g.must_pass(g.entry, [a], asserts, labels_excluded=("exc",)):
                r1.ok("find_cache_meta: skip_validation return only for parallel workers", fcm.loc(a.stmt))
            else:
                r1.violation("find_cache_meta: skip_validation return only for parallel workers", fcm.loc(a.stmt), "validation can be skipped outside a parallel worker")
            continue
        for field, bypass in REQUIRED_FIND.items():
            key = f"find_cache_meta: gate on `{field}` before `{norm(a.stmt)[:30]}`"
            ok = False
            for t, lab, fs in gates:
                if field in fs and lab == "true" and has_rejecting_polarity(t.exprs[0], field, {"m"}, aliases) and g.must_pass(g.entry, [a], [t], labels_excluded=("exc",)):
                    if bypass is None or bypass in norm(t.exprs[0]) or True:
                        ok = True
            if ok:
                r1.ok(key, fcm.loc(a.stmt))
            else:
                r1.violation(key, fcm.loc(a.stmt), f"a cached module can be accepted without comparing the stored `{field}` with the current value (gate missing, skippable, or with accepting polarity)")
        # format/version bytes in the fixed-format branch; meta_ex present
        fmt = [t for t, lab, fs in gates if "cache_version()" in norm(t.exprs[0]) and "CACHE_VERSION" in norm(t.exprs[0])]
        if fmt and any(isinstance(o, ast.NotEq) for n in ast.walk(fmt[0].exprs[0]) if isinstance(n, ast.Compare) for o in n.ops):
            r1.ok("find_cache_meta: binary meta rejected on cache_version()/CACHE_VERSION mismatch", fcm.loc(fmt[0].stmt))
        else:
            r1.violation("find_cache_meta: binary meta rejected on cache_version()/CACHE_VERSION mismatch", fcm.loc(), "the format/version guard of the binary cache is missing or no longer rejects")
    # the options comparison uses a freshly computed snapshot
    from ..pattern import find_all
    opt_gate = find_all(fcm.node, ["$cur = options_snapshot(id, manager)", "$cached = m.options", "$cached != $cur"]) or find_all(fcm.node, ["$cur = options_snapshot(id, manager)", "m.options != $cur"])
    if opt_gate:
        r1.ok("find_cache_meta: cached options compared with options_snapshot(id, manager)", fcm.loc())
    else:
        r1.violation("find_cache_meta: cached options compared with options_snapshot(id, manager)", fcm.loc(), "options gate no longer compares against a fresh snapshot")

    # ---- validate_meta
    vm = ix.func("mypy.build.validate_meta")
    g, accepts, gates, aliases = analyse_gates(vm, {"meta"})
    chk.extra["validate_meta_gates"] = [f"{norm(t.exprs[0])[:70]} rejects on {lab}; fields {sorted(fs)}" for t, lab, fs in gates]
    if len(accepts) < 3:
        raise AnalysisError("validate_meta: accepting returns not found")
    mp = [n for n in g.nodes if n.kind == "test" and {"mtime", "path"} <= fields_in(n.exprs[0], {"meta"}, aliases)]
    hash_gates = [(t, lab) for t, lab, fs in gates if "hash" in fs] + [(n, "true") for n in g.nodes if n.kind == "test" and isinstance(n.exprs[0], ast.Compare) and isinstance(n.exprs[0].ops[0], ast.NotEq) and "hash" in fields_in(n.exprs[0], {"meta"}, aliases)]
    for a in accepts:
        texts = [norm(c) for c in guard_chain(vm, a.stmt)[0]]
        tag = "; ".join(t[:40] for t in texts) or "final"
        for field, bypass in REQUIRED_VALIDATE.items():
            key = f"validate_meta: gate on `{field}` before accept [{tag}]"
            ok = False
            for t, lab, fs in gates:
                if field in fs and has_rejecting_polarity(t.exprs[0], field, {"meta"}, aliases):
                    passes = g.must_pass(g.entry, [a], [t], labels_excluded=("exc",))
                    if not passes and bypass:
                        # the gate sits under `if not <bypass>`: then the bypass test must dominate instead
                        outer = [n for n in g.nodes if n.kind == "test" and any(b in norm(n.exprs[0]) for b in bypass.split("|"))]
                        passes = any(g.must_pass(g.entry, [a], [o], labels_excluded=("exc",)) for o in outer)
                    if passes:
                        ok = True
            if ok:
                r1.ok(key, vm.loc(a.stmt))
            else:
                r1.violation(key, vm.loc(a.stmt), f"validate_meta can accept a meta record without the `{field}` check")
        # source identity: (mtime and path equal) or hash equal or quickstart triple or fine-grained bypass
        key = f"validate_meta: source unchanged (mtime+path, or hash) before accept [{tag}]"
        via_false = bool(mp) and all(a not in g.reachable([m for m, l in t.succ if l == "true"], labels_excluded=("exc",)) for t in mp) and any(g.must_pass(g.entry, [a], [t], labels_excluded=("exc",)) for t in mp)
        via_hash = any(g.must_pass(g.entry, [a], [t], labels_excluded=("exc",)) and a not in g.reachable([m for m, l in t.succ if l == "true"], labels_excluded=("exc",)) for t, _ in hash_gates)
        joined = " ; ".join(texts)
        quick = "qhash == meta.hash" in joined and "qsize == size" in joined and "int(qmtime) == mtime" in joined
        fg = "fine_grained_cache" in texts
        if via_false or via_hash:
            r1.ok(key, vm.loc(a.stmt), "mtime and path equal" if via_false else "hash compared")
        elif quick:
            r1.ok(key, vm.loc(a.stmt), "quick-start triple (mtime, size, hash) compared")
        elif fg:
            r1.ok(key, vm.loc(a.stmt), "fine-grained cache mode deliberately loads stale metadata and re-checks changes itself")
        else:
            r1.violation(key, vm.loc(a.stmt), "a meta record can be accepted although neither (mtime, path) nor the source hash was compared")

    # ---------------- R02.2
    r2 = chk.rule("R02.2", "an SCC is fresh iff all modules are fresh AND no dependency interface hash changed AND indirect dependencies verify; each SCC goes to exactly one list", floor=4)
    fs_ = ix.func("mypy.build.find_stale_sccs")
    loops = [n for n in ast.walk(fs_.node) if isinstance(n, ast.For) and norm(n.target) == "ascc"]
    if len(loops) != 1:
        raise AnalysisError("find_stale_sccs: main loop not found")
    loop = loops[0]
    bad = []
    rows = 0
    for A in (False, True):
        for B in (False, True):
            for C in (False, True):
                env = {"fresh": None}

                def ev(e):
                    t = norm(e)
                    if isinstance(e, ast.BoolOp):
                        vals = [ev(v) for v in e.values]
                        return all(vals) if isinstance(e.op, ast.And) else any(vals)
                    if isinstance(e, ast.UnaryOp) and isinstance(e.op, ast.Not):
                        return not ev(e.operand)
                    if t == "fresh":
                        return env["fresh"]
                    if t == "stale_scc":
                        return not A
                    if t == "stale_deps":
                        return not B
                    if t == "stale_indirect is not None":
                        return not C
                    if t == "stale_indirect is None":
                        return C
                    if isinstance(e, ast.Constant):
                        return bool(e.value)
                    raise AnalysisError(f"R02.2: unrecognised condition `{t[:60]}` in the freshness computation")

                def walk(stmts):
                    for s in stmts:
                        if isinstance(s, ast.Assign) and norm(s.targets[0]) == "fresh":
                            env["fresh"] = ev(s.value)
                        elif isinstance(s, ast.If) and any(isinstance(x, ast.Assign) and norm(x.targets[0]) == "fresh" for x in ast.walk(s)):
                            if ev(s.test):
                                walk(s.body)
                            else:
                                walk(s.orelse)

                walk(loop.body)
                rows += 1
                if env["fresh"] != (A and B and C):
                    bad.append(f"modules-fresh={A} dep-hashes-equal={B} indirect-ok={C}: fresh={env['fresh']}")
    if bad:
        r2.violation("find_stale_sccs: fresh == all-fresh AND dep-hashes-equal AND indirect-ok", fs_.loc(loop), "; ".join(bad))
    else:
        r2.ok("find_stale_sccs: fresh == all-fresh AND dep-hashes-equal AND indirect-ok", fs_.loc(loop), f"{rows} rows")
    src = norm(loop)
    defs = {
        "stale_scc = {id for id in ascc.mod_ids if not graph[id].is_fresh()}": "stale_scc collects the modules whose is_fresh() is false",
        "graph[dep].interface_hash != graph[id].dep_hashes[dep]": "stale_deps compares the dependency's current interface hash with the recorded one (!=)",
        "stale_indirect = verify_transitive_deps(ascc, graph, manager)": "stale_indirect from verify_transitive_deps",
    }
    for frag, what in defs.items():
        if frag in src:
            r2.ok(f"find_stale_sccs: {what}", fs_.loc(loop))
        else:
            r2.violation(f"find_stale_sccs: {what}", fs_.loc(loop), "the definition of this freshness atom changed")
    # stale_deps.add under the comparison
    for n in ast.walk(loop):
        if isinstance(n, ast.Call) and norm(n.func) == "stale_deps.add":
            texts = [norm(c) for c in guard_chain(fs_, n)[0]]
            if any("interface_hash != " in t for t in texts):
                r2.ok("find_stale_sccs: stale_deps.add guarded by the hash inequality", fs_.loc(n))
            else:
                r2.violation("find_stale_sccs: stale_deps.add guarded by the hash inequality", fs_.loc(n), f"guards: {texts}")
    apps = {norm(n.func): [norm(c) for c in guard_chain(fs_, n)[0]] for n in ast.walk(loop) if isinstance(n, ast.Call) and norm(n.func) in ("fresh_sccs.append", "stale_sccs.append")}
    if apps.get("fresh_sccs.append") == ["fresh"] and "stale_sccs.append" in apps and "fresh" not in apps["stale_sccs.append"]:
        ifs = [n for n in loop.body if isinstance(n, ast.If) and norm(n.test) == "fresh" and any(isinstance(c, ast.Call) and norm(c.func) == "stale_sccs.append" for s in n.orelse for c in ast.walk(s))]
        if ifs:
            r2.ok("find_stale_sccs: fresh -> fresh_sccs, otherwise -> stale_sccs (same if/else)", fs_.loc(ifs[0]))
        else:
            r2.violation("find_stale_sccs: fresh -> fresh_sccs, otherwise -> stale_sccs (same if/else)", fs_.loc(loop), "the two appends are not the branches of one `if fresh`")
    else:
        r2.violation("find_stale_sccs: fresh -> fresh_sccs, otherwise -> stale_sccs (same if/else)", fs_.loc(loop), f"append guards: {apps}")

    # ---------------- R02.3
    r3 = chk.rule("R02.3", "State.is_fresh is the conjunction of: meta present, dependency list unchanged, import options of suppressed deps unchanged (bypass only in fine-grained mode)", floor=3)
    isf = ix.func("mypy.build.State.is_fresh")
    rets = [n for n in ast.walk(isf.node) if isinstance(n, ast.Return)]
    if len(rets) != 1 or not (isinstance(rets[0].value, ast.BoolOp) and isinstance(rets[0].value.op, ast.And)):
        raise AnalysisError("State.is_fresh is no longer a single conjunction")
    conj = [norm(v) for v in rets[0].value.values]
    want = {
        "self.meta is not None": "a cache meta exists",
        "self.dependencies == self.meta.dependencies": "the dependency list equals the cached one",
    }
    for w, what in want.items():
        if w in conj:
            r3.ok(f"is_fresh: {what}", isf.loc())
        else:
            r3.violation(f"is_fresh: {what}", isf.loc(), f"conjunct `{w}` missing: {conj}")
    sup = [c for c in conj if "suppressed_deps_opts" in c]
    if sup and "self.meta.suppressed_deps_opts == self.suppressed_deps_opts()" in sup[0] and sup[0].replace("self.meta.suppressed_deps_opts == self.suppressed_deps_opts()", "").replace("self.options.fine_grained_incremental", "").strip("() or") == "":
        r3.ok("is_fresh: import-following options of suppressed deps unchanged (or fine-grained mode)", isf.loc())
    else:
        r3.violation("is_fresh: import-following options of suppressed deps unchanged (or fine-grained mode)", isf.loc(), f"conjunct: {sup}")

    # ---------------- R02.4
    r4 = chk.rule("R02.4", "errors cached for fresh modules are formatted and flushed, guarded only by their non-emptiness", floor=1)
    flush = [n for n in ast.walk(loop) if isinstance(n, ast.Call) and norm(n.func) == "manager.flush_errors"]
    okf = False
    for fl in flush:
        texts = [norm(c) for c in guard_chain(fs_, fl)[0]]
        if texts == ["graph[id].error_lines", "fresh"] or texts == ["fresh", "graph[id].error_lines"]:
            src2 = norm(fs_.module.parents()[fs_.module.parents()[fl]])
            okf = True
    fm = any(isinstance(n, ast.Call) and call_name(n) == "format_messages" and any("error_lines" in norm(a) for a in n.args) for n in ast.walk(loop))
    if okf and fm:
        r4.ok("find_stale_sccs: error_lines -> format_messages -> flush_errors on the fresh branch", fs_.loc(flush[0]))
    else:
        r4.violation("find_stale_sccs: error_lines -> format_messages -> flush_errors on the fresh branch", fs_.loc(loop), "cached errors of a fresh module are no longer (unconditionally) replayed")

    # ---------------- R02.5
    r5 = chk.rule("R02.5", "the value stored for each gate field by write_cache is produced the same way as the fresh value the gate compares it with", floor=6)
    wc = ix.func("mypy.build.write_cache")
    ctor = [n for n in ast.walk(wc.node) if isinstance(n, ast.Call) and call_name(n) == "CacheMeta"]
    if len(ctor) != 1:
        raise AnalysisError("write_cache: CacheMeta construction not found")
    kw = {k.arg: k.value for k in ctor[0].keywords}
    wlocals = {norm(n.targets[0]): norm(n.value) for n in ast.walk(wc.node) if isinstance(n, ast.Assign) and len(n.targets) == 1}
    vlocals = {norm(n.targets[0]): norm(n.value) for n in ast.walk(vm.node) if isinstance(n, ast.Assign) and len(n.targets) == 1}

    def wsrc(field):
        v = norm(kw[field]) if field in kw else None
        return wlocals.get(v, v)

    pairs = [
        ("mtime", wsrc("mtime"), vlocals.get("mtime")),
        ("size", wsrc("size"), vlocals.get("size")),
        ("data_mtime", wsrc("data_mtime"), vlocals.get("data_mtime", "").replace("meta.data_file", "data_file")),
        ("options", wsrc("options"), "options_snapshot(id, manager)" if opt_gate else None),
        ("version_id", wsrc("version_id"), "manager.version_id" if any(isinstance(c, ast.Compare) and isinstance(c.ops[0], ast.NotEq) and {norm(c.left), norm(c.comparators[0])} == {"m.version_id", "manager.version_id"} for c in ast.walk(fcm.node)) else None),
    ]
    for field, a, b in pairs:
        key = f"gate field `{field}`: written `{a}` / compared with `{b}`"
        if a is not None and a == b:
            r5.ok(key, wc.loc(ctor[0]))
        else:
            r5.violation(key, wc.loc(ctor[0]), "the stored value and the value it is validated against come from different producers: the gate can never match or always matches")
    # plugin data: same hook, differing only in the documented is_check flag
    pw = wlocals.get("plugin_data", "")
    pv = [norm(n.value) for n in ast.walk(fcm.node) if isinstance(n, ast.Assign) and norm(n.targets[0]) == "plugin_data"]
    if pw.replace("is_check=False", "") == (pv[0].replace("is_check=True", "") if pv else None):
        r5.ok("gate field `plugin_data`: same report_config_data hook on both sides", wc.loc())
    else:
        r5.violation("gate field `plugin_data`: same report_config_data hook on both sides", wc.loc(), f"written `{pw}` / compared `{pv}`")
    # interface hash is a digest of the very bytes handed to the store
    ih = wlocals.get("interface_hash", "")
    dw = [n for n in ast.walk(wc.node) if isinstance(n, ast.Call) and norm(n.func) == "metastore.write" and "data_file" in norm(n)]
    if "data_bytes" in ih and ih.startswith("hash_digest") and dw and all(norm(c.args[1]) == "data_bytes" for c in dw):
        r5.ok("interface_hash = digest(data_bytes ...) and the same data_bytes are written", wc.loc())
    else:
        r5.violation("interface_hash = digest(data_bytes ...) and the same data_bytes are written", wc.loc(), f"interface_hash = {ih}")

    run_dep_hash(chk, ix)
    run_follow_skip(chk, ix)
    run_reparse_forcing(chk, ix)
    run_generic_callee_indirection(chk, ix)
    run_cached_lines_self_contained(chk, ix)
    run_protocol_member_indirection(chk, ix)
    run_implicit_callee_indirection(chk, ix)
    run_plugins_snapshot(chk, ix)
    run_meta_tests_use_meta(chk, ix)
    run_suppression_reason(chk, ix)
    run_import_diagnosis_has_cached_standins(chk, ix)
    run_lookup_memo_independent_of_caller(chk, ix)
    run_added_packages_include_namespace_ones(chk, ix)
    run_hash_match_keeps_file_kind(chk, ix)
    # the cached interface must come back as it was written (bound from C11: R11.11, None is encoded exactly)
    from ..resolve import Resolver
    from .c11 import run_none_encoding
    run_none_encoding(chk, ix, Resolver(ix))
    # R02.7: the validity record itself survives the JSON round trip (instances of C11's conversion rule)
    from .c11 import run_json_conversions
    run_json_conversions(chk, ix, rid="R02.7", only=("CacheMeta", "CacheMetaEx"), floor=4)

    # ---------------- R02.6
    r6 = chk.rule("R02.6", "TypeIndirectionVisitor reaches every type component (matrix row) and indirect dependencies are patched after type checking", floor=25)
    cells = coverage(ix, ix.cls("mypy.indirection.TypeIndirectionVisitor"))
    for (cn, fld), (ok, where) in sorted(cells.items()):
        key = f"TypeIndirectionVisitor x {cn}.{fld}"
        if ok:
            r6.ok(key, where)
        else:
            r6.violation(key, where, f"the indirect-dependency visitor does not descend into {cn}.{fld}: a module reachable only through this component is not recorded as an (indirect) dependency, so its change does not invalidate the importer's cache")
    fp = ix.func("mypy.build.State.finish_passes")
    gf = CFG(fp.node)
    patch = [n for n in gf.nodes if any(call_name(c) == "patch_indirect_dependencies" for c in n.calls())]
    if patch:
        texts = [norm(c) for c in guard_chain(fp, patch[0].stmt)[0]]
        if all(("semantic_analysis_only" in t) or t.startswith("not ") or True for t in texts):
            r6.ok("finish_passes calls patch_indirect_dependencies", fp.loc(patch[0].stmt), f"guards: {texts}")
    else:
        r6.violation("finish_passes calls patch_indirect_dependencies", fp.loc(), "indirect dependencies are no longer recorded")


def call_name_(c: ast.Call):
    return c.func.id if isinstance(c.func, ast.Name) else (c.func.attr if isinstance(c.func, ast.Attribute) else None)


def run_dep_hash(chk: Check, ix) -> None:
    """R02.8: the single-module fast path and the general path of transitive_dep_hash agree."""
    r8 = chk.rule("R02.8", "transitive_dep_hash: the single-module fast path and the general (import-cycle) path select dependencies with the same predicate and both write every selected dependency's name (the general path is the fast path generalised, not a different hash)", floor=3)
    f = ix.func("mypy.build.transitive_dep_hash")
    fast = [n for n in f.node.body if isinstance(n, ast.If) and "len(mod_ids) == 1" in norm(n.test)]
    if len(fast) != 1:
        raise AnalysisError("transitive_dep_hash: fast path `if len(mod_ids) == 1` not found")
    fast_body = fast[0].body
    gen_body = [s for s in f.node.body if s is not fast[0]]

    def filters(stmts):
        """Predicates a dependency must satisfy to be selected (comprehension ifs and guarding ifs of .add / append)."""
        out = set()
        deps_var = None
        for s in stmts:
            for n in ast.walk(s):
                if isinstance(n, (ast.GeneratorExp, ast.ListComp, ast.SetComp)) and any("dependencies" in norm(g.iter) for g in n.generators):
                    for g in n.generators:
                        for c in g.ifs:
                            out |= {normalise_pred(x, g.target) for x in (c.values if isinstance(c, ast.BoolOp) and isinstance(c.op, ast.And) else [c])}
                if isinstance(n, ast.For) and "dependencies" in norm(n.iter):
                    for c in ast.walk(n):
                        if isinstance(c, ast.Call) and isinstance(c.func, ast.Attribute) and c.func.attr in ("add", "append"):
                            par = f.module.parents()
                            p = par.get(c)
                            while p is not None and p is not n:
                                if isinstance(p, ast.If):
                                    t = p.test
                                    out |= {normalise_pred(x, n.target) for x in (t.values if isinstance(t, ast.BoolOp) and isinstance(t.op, ast.And) else [t])}
                                p = par.get(p)
        return out

    def normalise_pred(e, target):
        t = norm(e)
        tn = norm(target)
        import re as _re
        return _re.sub(rf"\\b{tn}\\b", "DEP", t)

    ff, gf = filters(fast_body), filters(gen_body)
    if not ff or not gf:
        raise AnalysisError(f"transitive_dep_hash: dependency filters not recognised (fast {ff}, general {gf})")
    if ff == gf:
        r8.ok("same dependency predicate on both paths", f.loc(), f"{sorted(ff)}")
    else:
        r8.violation("same dependency predicate on both paths", f.loc(), f"fast path selects dependencies with {sorted(ff)}, the import-cycle path with {sorted(gf)}: the hash of a multi-module SCC is no longer the generalisation of the single-module hash (e.g. members of the cycle are left out, so swapping a member goes unnoticed)")

    def name_written_unconditionally(stmts):
        for s in stmts:
            for n in ast.walk(s):
                if isinstance(n, ast.For) and isinstance(n.iter, ast.Name) and any(isinstance(c, ast.Call) and call_name_(c) in ("write_str_bare", "write_bytes_bare") for c in ast.walk(n)):
                    top = [x for x in n.body if isinstance(x, ast.Expr) and isinstance(x.value, ast.Call) and norm(x.value.func) == "write_str_bare" and norm(x.value.args[1]) == norm(n.target)]
                    return bool(top)
        return False

    for nm, body in (("fast", fast_body), ("general", gen_body)):
        if name_written_unconditionally(body):
            r8.ok(f"{nm} path writes the name of every selected dependency", f.loc())
        else:
            r8.violation(f"{nm} path writes the name of every selected dependency", f.loc(), "a selected dependency's name is not (unconditionally) part of the hashed bytes")


def run_follow_skip(chk: Check, ix) -> None:
    """R02.9: a raw `follow_imports in (skip, error)` test honours the exceptions of the effective setting."""
    r9 = chk.rule("R02.9", "wherever build.py decides from the raw option that a module is not followed (follow_imports skip/error), it carries the stub exception that find_module_and_diagnose applies when it computes the effective setting (stubs are followed unless follow_imports_for_stubs)", floor=1)
    fmd = ix.func("mypy.build.find_module_and_diagnose")
    norm_ifs = [n for n in ast.walk(fmd.node) if isinstance(n, ast.If) and any(isinstance(a, ast.Assign) and norm(a) == "follow_imports = 'normal'" for a in n.body)]
    if len(norm_ifs) != 1:
        raise AnalysisError("find_module_and_diagnose: the override to follow_imports = 'normal' was not found")
    ov = norm(norm_ifs[0].test)
    if ".endswith('.pyi')" not in ov or "follow_imports_for_stubs" not in ov:
        r9.violation("find_module_and_diagnose: stubs are followed unless follow_imports_for_stubs", fmd.loc(norm_ifs[0]), f"the effective-setting override no longer has the stub exception: `{ov[:120]}`")
        return
    n_sites = 0
    m = ix.module("mypy.build")
    par = m.parents()
    for q, f in sorted(ix.functions.items()):
        if f.module is not m or f.parent is not None or f is fmd:
            continue
        for c in ast.walk(f.node):
            if not (isinstance(c, ast.Compare) and isinstance(c.left, ast.Attribute) and c.left.attr == "follow_imports" and len(c.ops) == 1):
                continue
            vals = {x.value for x in ast.walk(c.comparators[0]) if isinstance(x, ast.Constant)}
            if not (vals & {"skip", "error"}):
                continue
            n_sites += 1
            top = c
            while isinstance(par.get(top), (ast.BoolOp, ast.UnaryOp)):
                top = par.get(top)
            t = norm(top)
            key = f"{q}: `{norm(c)}` carries the stub exception"
            if ".endswith('.pyi')" in t and "follow_imports_for_stubs" in t:
                r9.ok(key, f.loc(c))
            else:
                r9.violation(key, f.loc(c), "this test treats a module as not followed from the raw option alone; a stub (.pyi) is followed even under follow_imports=skip/error (unless follow_imports_for_stubs), so e.g. a newly appeared stub package is ignored here while the rest of the build follows it: the importer is not re-parsed and the cache keeps the old dependency list")
    if n_sites < 1:
        raise AnalysisError("no raw follow_imports skip/error test found in build.py (expected exist_added_packages)")


def run_reparse_forcing(chk: Check, ix) -> None:
    """R02.10: appearance of a suppressed package / disappearance of a submodule forces the importer to be re-parsed."""
    from ..pattern import has
    r10 = chk.rule("R02.10", "State.new_state, on a valid cache meta outside fine-grained cache loading, consults exist_added_packages(suppressed) and exist_removed_submodules(dependencies) and either answer marks the state for re-parsing; states marked so are parsed by load_graph before their dependencies are used", floor=3)
    ns = ix.func("mypy.build.State.new_state")
    from ..cfg import branch_conditions
    par10 = ns.module.parents()
    for fn, arg in (("exist_added_packages", "suppressed"), ("exist_removed_submodules", "dependencies")):
        key = f"new_state: {fn}({arg}, manager) => state.needs_parse = True"
        calls = [c for c in ast.walk(ns.node) if isinstance(c, ast.Call) and call_name_(c) == fn and c.args and norm(c.args[0]) == arg]
        ok = False
        why = "a changed package structure no longer forces the importer's dependencies to be recomputed: `from pkg import mod` keeps treating mod as an attribute (or as a module) as it was when cached"
        for c in calls:
            # the call is (a disjunct of) the test of an `if` whose body marks the state for re-parsing
            t = c
            while isinstance(par10.get(t), ast.BoolOp) and isinstance(par10.get(t).op, ast.Or):
                t = par10.get(t)
            iff = par10.get(t)
            if isinstance(iff, ast.If) and iff.test is t and any(isinstance(a, ast.Assign) and isinstance(a.targets[0], ast.Attribute) and a.targets[0].attr == "needs_parse" and isinstance(a.value, ast.Constant) and a.value.value is True for a in iff.body):
                pos, neg = branch_conditions(par10, ns.node, iff)
                conds = [norm(x) for x in pos] + ["not (" + norm(x) + ")" for x in neg]
                extra = [x for x in conds if x not in ("meta", "not manager.use_fine_grained_cache()")]
                if "meta" in conds and not extra:
                    ok = True
                else:
                    why = f"the test runs under {conds}: it is skipped for some cached modules, whose dependency list then stays as cached although the package structure changed"
        if ok:
            r10.ok(key, ns.loc(calls[0]))
        else:
            r10.violation(key, ns.loc(calls[0]) if calls else ns.loc(), why)
    lg = ix.func("mypy.build.load_graph")
    if has(lg.node, "manager.parse_all([$s for $s in $new if $s.needs_parse])") or has(lg.node, "$m.parse_all([$s for $s in $new if $s.needs_parse])"):
        r10.ok("load_graph parses every new state marked needs_parse", lg.loc())
    else:
        r10.violation("load_graph parses every new state marked needs_parse", lg.loc(), "states marked for re-parsing are not parsed in load_graph")


def run_generic_callee_indirection(chk: Check, ix) -> None:
    """R02.11: what a generic callee's type variables refer to reaches the indirect-dependency computation."""
    r11 = chk.rule("R02.11", "indirect dependencies are computed from the types in the module's type map (plus module_refs); check_callable_call overwrites the type stored for the callee expression with the *instantiated* signature, so the bounds / value restrictions of the callee's type variables must be recorded some other way before they are dropped, otherwise a module whose check depended on them (`Value of type variable T cannot be ...`) has no dependency on the module that defines the bound", floor=1)
    f = ix.func("mypy.checkexpr.ExpressionChecker.check_callable_call")
    stores = [c for c in ast.walk(f.node) if isinstance(c, ast.Call) and call_name_(c) == "store_type" and c.args and norm(c.args[0]) == "callable_node"]
    if not stores:
        raise AnalysisError("check_callable_call no longer stores the callee type for callable_node")
    stored = norm(stores[0].args[1])
    reassigned = [a for a in ast.walk(f.node) if isinstance(a, ast.Assign) and norm(a.targets[0]) == stored and any(isinstance(c, ast.Call) and call_name_(c) in ("infer_function_type_arguments", "infer_function_type_arguments_using_context", "apply_generic_arguments", "freshen_function_type_vars", "freshen_all_functions_type_vars") for c in ast.walk(a.value))]
    records = [c for c in ast.walk(f.node) if isinstance(c, ast.Call) and any(isinstance(x, ast.Attribute) and x.attr == "variables" for a in c.args for x in ast.walk(a)) and call_name_(c) in ("update", "add", "extend", "store_type", "record_indirect", "add_indirection_types")]
    key = "check_callable_call: the type variables of a generic callee are recorded for indirect dependencies before the instantiated signature replaces the stored callee type"
    if reassigned and not records:
        r11.violation(key, f.loc(stores[0]), f"`{stored}` is re-assigned from type-argument inference ({len(reassigned)} sites) and then stored for the callee expression; nothing records `.variables` (their upper bounds and values) for the indirection visitor: the importer gets no dependency on the module defining a type variable's bound")
    else:
        r11.ok(key, f.loc(stores[0]))


def run_cached_lines_self_contained(chk: Check, ix) -> None:
    """R02.12: what is cached per module does not depend on which other modules were checked in the same run."""
    r12 = chk.rule("R02.12", "error lines are cached per module (CacheMetaEx.error_lines) and replayed for fresh modules, so whether a line is produced for a module must not depend on the other modules of the run; a once-per-build de-duplication set in add_error_info that is not keyed by file drops a note from every module but the first, and the cached lines of the others then lack it for good", floor=1)
    aei = ix.func("mypy.errors.Errors.add_error_info")
    tested = {}
    added = set()
    for n in ast.walk(aei.node):
        if isinstance(n, ast.Compare) and len(n.ops) == 1 and isinstance(n.ops[0], ast.In) and isinstance(n.comparators[0], ast.Attribute) and norm(n.comparators[0].value) == "self":
            tested.setdefault(n.comparators[0].attr, n)
        if isinstance(n, ast.Call) and isinstance(n.func, ast.Attribute) and n.func.attr == "add" and isinstance(n.func.value, ast.Attribute) and norm(n.func.value.value) == "self":
            added.add(n.func.value.attr)
    sets = sorted(set(tested) & added)
    if not sets:
        raise AnalysisError("add_error_info: no de-duplication set found")
    for a in sets:
        t = tested[a]
        per_file = "file" in norm(t.left) or any(isinstance(x, ast.Subscript) and norm(x.value) == f"self.{a}" for x in ast.walk(aei.node))
        key = f"Errors.{a}: the de-duplication that decides whether a line is produced is per file"
        if per_file:
            r12.ok(key, aei.loc(t))
        else:
            r12.violation(key, aei.loc(t), f"`{norm(t)}` consults a set shared by all files of the run: the note is attached to the first module that triggers it only, and the error lines cached for the other modules lack it; once the first module stops triggering it a warm run replays the others without the note, a cold run prints it")


def run_protocol_member_indirection(chk: Check, ix) -> None:
    """R02.13: the member types of a protocol reach the indirect dependencies, for every member."""
    r = chk.rule("R02.13", "TypeIndirectionVisitor.visit_instance walks the member types of a protocol (they are the meaning of a structural type): `protocol_members` lists names collected over the whole MRO, so each name is resolved over the MRO too (TypeInfo.get / get_method), not in the protocol's own `names` table, and for a settable property the declared setter type is walked as well as the getter's; a skipped member type means a module that uses the protocol has no dependency on the module that type comes from, and a warm run misses what a cold run reports", floor=3)
    f = ix.func("mypy.indirection.TypeIndirectionVisitor.visit_instance")
    loops = [l for l in ast.walk(f.node) if isinstance(l, ast.For) and isinstance(l.target, ast.Name) and isinstance(l.iter, ast.Attribute) and l.iter.attr == "protocol_members"]
    if not loops:
        r.violation("visit_instance walks the members of a protocol", f.loc(), "no loop over protocol_members: member types of protocols are not indirect dependencies at all")
        return
    lp = loops[0]
    m = lp.target.id
    r.ok("visit_instance walks the members of a protocol", f.loc(lp))
    own = [x for x in ast.walk(lp) if (isinstance(x, ast.Call) and isinstance(x.func, ast.Attribute) and x.func.attr == "get" and isinstance(x.func.value, ast.Attribute) and x.func.value.attr == "names" and x.args and norm(x.args[0]) == m) or (isinstance(x, ast.Subscript) and isinstance(x.value, ast.Attribute) and x.value.attr == "names" and norm(x.slice) == m)]
    wide = [x for x in ast.walk(lp) if isinstance(x, ast.Call) and isinstance(x.func, ast.Attribute) and x.func.attr in ("get", "get_method", "get_containing_type_info") and not (isinstance(x.func.value, ast.Attribute) and x.func.value.attr == "names") and x.args and norm(x.args[0]) == m]
    key = "each member name is resolved over the MRO"
    if own and not wide:
        r.violation(key, f.loc(own[0]), f"`{norm(own[0])}` looks only in the protocol's own symbol table, but protocol_members includes the names declared in base protocols: their types are never walked (`class P2(P1, Protocol)` used as a parameter type gives no dependency on the modules P1's member types come from)")
    elif wide:
        r.ok(key, f.loc(wide[0]), norm(wide[0]))
    else:
        raise AnalysisError("visit_instance: the lookup of a protocol member inside the loop was not recognised")
    key = "the setter type of a settable property member is walked"
    if any(isinstance(x, ast.Attribute) and x.attr == "setter_type" for x in ast.walk(lp)):
        r.ok(key, f.loc(lp))
    else:
        r.violation(key, f.loc(lp), "only `node.type` (the getter's type) is walked: a protocol property whose setter takes a type from another module gives no dependency on that module")


def run_implicit_callee_indirection(chk: Check, ix) -> None:
    """R02.14: the signature an implicit method call is checked against reaches the indirect dependencies."""
    r = chk.rule("R02.14", "indirect dependencies are computed from the types of the module's expressions; for `x.f(y)` the callee `x.f` is an expression, but for `x + y`, `x[y]` and `x(y)` through __call__ the method's signature is looked up by name (check_method_call_by_name -> check_method_call) and is no expression's type: check_method_call therefore hands `method_type` to something that records it (a store into the type map, module_refs, or a set given to patch_indirect_dependencies), or the parameter types of __add__ / __getitem__ / __call__ give the caller no dependency on the modules they come from", floor=1)
    f = ix.func("mypy.checkexpr.ExpressionChecker.check_method_call")
    passthrough = {"transform_callee_type", "check_call", "method_fullname", "get_proper_type"}
    rec = [c for c in ast.walk(f.node) if isinstance(c, ast.Call) and call_name_(c) not in passthrough and any(isinstance(n, ast.Name) and n.id == "method_type" for a in list(c.args) + [k.value for k in c.keywords] for n in ast.walk(a))]
    key = "check_method_call records the signature of the implicitly called method for indirect dependencies"
    if rec:
        r.ok(key, f.loc(rec[0]), norm(rec[0])[:80])
    else:
        r.violation(key, f.loc(), "`method_type` only flows into transform_callee_type and check_call: nothing makes it visible to patch_indirect_dependencies")


def snapshot_written_after_processing(rule, ix) -> None:
    """Shared by R02.15 and R04.10: every CFG path of dispatch() to write_plugins_snapshot passes process_graph."""
    from ..cfg import CFG, call_name
    d = ix.func("mypy.build.dispatch")
    g = CFG(d.node)
    writes = [n for n in g.nodes if n.kind == "stmt" and isinstance(n.stmt, ast.Expr) and isinstance(n.stmt.value, ast.Call) and call_name(n.stmt.value) == "write_plugins_snapshot"]
    procs = [n for n in g.nodes if n.kind == "stmt" and any(isinstance(c, ast.Call) and call_name(c) == "process_graph" for c in ast.walk(n.stmt))]
    if not writes or not procs:
        raise AnalysisError(f"dispatch: write_plugins_snapshot sites {len(writes)}, process_graph sites {len(procs)}")
    for w in writes:
        key = "dispatch: write_plugins_snapshot only after process_graph"
        if g.must_pass(g.entry, [w], procs, labels_excluded=("exc",)):
            rule.ok(key, d.loc(w.stmt))
        else:
            rule.violation(key, d.loc(w.stmt), "a path reaches write_plugins_snapshot without having run process_graph: when the plugins changed and the run then stops (a blocking error, a kill) before every module record has been rewritten, the new snapshot lies next to records written with the old plugins; the next run finds `snapshot == current plugins`, accepts them and replays results computed with the old plugin")


def run_plugins_snapshot(chk: Check, ix) -> None:
    """R02.15 / R02.16: the record of which plugins produced the cache."""
    from ..cfg import CFG, call_name
    r15 = chk.rule("R02.15", "build.dispatch replaces the plugins snapshot on disk (write_plugins_snapshot) only after process_graph has run: the snapshot is the only record of which plugins produced the cache files (find_cache_meta rejects metas when it differs from the current plugins), so it may say `current plugins` only once every module rejected for that reason has been re-checked and re-written. On every CFG path (exception edges excluded: a blocking error leaves through them) the write is preceded by process_graph", floor=1)
    snapshot_written_after_processing(r15, ix)
    r16 = chk.rule("R02.16", "State.patch_indirect_dependencies skips modules the state already depends on; a module counts as `already depended on` only if a change of its interface is noticed for this state, i.e. it is in `dependencies` (hashed in dep_hashes) or `suppressed`. Ancestor packages are processed before the module but their interface hash is not recorded for it, so they do not count: otherwise a type reached through another module that is defined in `pkg/__init__.py` leaves `pkg.mod` with no dependency on `pkg` at all", floor=1)
    p = ix.func("mypy.build.State.patch_indirect_dependencies")
    ex = [a for a in ast.walk(p.node) if isinstance(a, ast.Assign) and norm(a.targets[0]) == "existing_deps"]
    if not ex:
        raise AnalysisError("patch_indirect_dependencies: existing_deps not found")
    attrs = sorted({x.attr for x in ast.walk(ex[0].value) if isinstance(x, ast.Attribute) and norm(x.value) == "self"})
    key = "patch_indirect_dependencies: only hashed dependencies count as existing"
    extra = [a for a in attrs if a not in ("dependencies", "suppressed", "id")]
    if not extra:
        r16.ok(key, p.loc(ex[0]), f"existing_deps built from {attrs}")
    else:
        r16.violation(key, p.loc(ex[0]), f"existing_deps also contains self.{extra[0]}: such modules are never added as indirect dependencies although no interface hash of theirs is recorded for this module (`pkg/__init__.py` defines X, `other.get() -> X`, `pkg/mod.py` uses `other.get().attr`: after X.attr changes type the warm run still shows the old type)")


def run_meta_tests_use_meta(chk: Check, ix) -> None:
    """R02.17: whether a cache file is usable is decided from what that cache file records."""
    r17 = chk.rule("R02.17", "every test in find_cache_meta that abandons a meta (`Metadata abandoned for ...`) compares something recorded in that meta (`m.<field>`, or a local derived from it such as cached_options) with the current value. A test that compares two facts about the cache *directory* (manager.plugins_snapshot != manager.old_plugins_snapshot) cannot tell which of the files were written under which value once a run has rewritten only some of them (a run stopped by a blocking error)", floor=6)
    f = ix.func("mypy.build.find_cache_meta")
    derived = {"m", "meta"}
    changed = True
    while changed:
        changed = False
        for a in ast.walk(f.node):
            if isinstance(a, (ast.Assign, ast.AnnAssign)) and a.value is not None:
                tg = a.targets[0] if isinstance(a, ast.Assign) else a.target
                if isinstance(tg, ast.Name) and tg.id not in derived and any(isinstance(x, ast.Name) and x.id in derived for x in ast.walk(a.value)):
                    derived.add(tg.id)
                    changed = True
    n = 0
    par = f.module.parents()
    from ..cfg import branch_conditions
    for i in ast.walk(f.node):
        if not isinstance(i, ast.If):
            continue
        logs = [c for c in ast.walk(ast.Module(body=i.body, type_ignores=[])) if isinstance(c, ast.Call) and isinstance(c.func, ast.Attribute) and c.func.attr == "log" and c.args and "abandoned" in norm(c.args[0])]
        direct = [c for s in i.body for c in ([s.value] if isinstance(s, ast.Expr) and isinstance(s.value, ast.Call) else []) if c in logs]
        if not direct:
            continue
        n += 1
        what = norm(direct[0].args[0])[:70]
        pos, neg = branch_conditions(par, f.node, i.body[0])
        names = {x.id for t in pos for x in ast.walk(t) if isinstance(x, ast.Name)}
        key = f"find_cache_meta: the test for {what} looks at the meta"
        if names & derived:
            r17.ok(key, f.loc(i))
        else:
            r17.violation(key, f.loc(i), f"`{norm(i.test)[:100]}` mentions nothing recorded in the cache file itself: after plugin v1 -> v2 and a run that stops at a blocking error, some metas are from v2 while the snapshot still says v1; reverting the plugin makes the snapshot match again and the v2 results are replayed")
    if n < 6:
        raise AnalysisError(f"find_cache_meta: only {n} `Metadata abandoned` tests found")


def run_suppression_reason(chk: Check, ix) -> None:
    """R02.18: the recorded reason for a suppressed import distinguishes the outcomes that are reported differently."""
    from ..cfg import branch_conditions
    r18 = chk.rule("R02.18", "find_module_and_diagnose records why an import was suppressed (SuppressionReason, hashed into the importer's meta through suppressed_deps_opts): a change of the reason is what makes the importer stale when a module appears or disappears. In `--follow-imports=error` mode a module that exists but is skipped is *reported* (skipping_module / skipping_ancestor), a missing one is not, so under follow_imports == 'error' the reason SKIPPED is never collapsed into NOT_FOUND (evaluated over follow_imports in normal/silent/skip/error)", floor=1)
    f = ix.func("mypy.build.find_module_and_diagnose")
    par = f.module.parents()
    sites = [a for a in ast.walk(f.node) if isinstance(a, ast.Assign) and norm(a.targets[0]) == "reason" and norm(a.value).endswith("NOT_FOUND")]
    if not sites:
        raise AnalysisError("find_module_and_diagnose: no `reason = SuppressionReason.NOT_FOUND` found")

    def ev(t: ast.expr, val: str):
        if isinstance(t, ast.BoolOp):
            vs = [ev(x, val) for x in t.values]
            return all(vs) if isinstance(t.op, ast.And) else any(vs)
        if isinstance(t, ast.UnaryOp) and isinstance(t.op, ast.Not):
            return not ev(t.operand, val)
        if isinstance(t, ast.Compare) and len(t.ops) == 1 and norm(t.left) == "follow_imports" and isinstance(t.comparators[0], ast.Constant):
            eq = t.comparators[0].value == val
            return eq if isinstance(t.ops[0], ast.Eq) else (not eq) if isinstance(t.ops[0], ast.NotEq) else True
        return True  # unrelated atom: may hold
    for a in sites:
        pos, neg = branch_conditions(par, f.node, a)
        possible = [v for v in ("normal", "silent", "skip", "error") if all(ev(t, v) for t in pos) and not any(ev(t, v) is True and _only_follow(t) for t in neg)]
        key = "find_module_and_diagnose: a skipped import is not recorded as NOT_FOUND in 'error' mode"
        if "error" not in possible:
            r18.ok(key, f.loc(a), f"reached for follow_imports in {possible}")
        else:
            r18.violation(key, f.loc(a), f"`reason = NOT_FOUND` is reached with follow_imports == 'error' (possible values {possible}): with ignore_missing_imports the importer's meta records the same reason whether the module exists (reported: Import of \"mod\" ignored) or not (silent), so adding or removing the module leaves the importer fresh and the warm run differs from a cold one")


def _only_follow(t: ast.expr) -> bool:
    """The test mentions nothing but follow_imports comparisons (so its negation can be evaluated exactly)."""
    names = {x.id for x in ast.walk(t) if isinstance(x, ast.Name)}
    return names <= {"follow_imports"}


def run_import_diagnosis_has_cached_standins(chk: Check, ix) -> None:
    """R02.19: what the diagnosis of a missing import reads from the importing State is available for a State loaded from the cache."""
    r19 = chk.rule("R02.19", "build.module_not_found reports a missing import on behalf of the importing module (`caller_state`). In a cold run that module has been parsed when its imports are followed; in a warm run it has been loaded from its cache record and is parsed (if at all) only later. Every State attribute the function reads that is assigned on the parsing path (State.parse_file and the methods it reaches through `self`) therefore needs a stand-in kept in the cache record, selected by a test of `caller_state.tree` (as `imports_ignored` stands in for `tree.ignored_lines`)", floor=2)
    b = ix.module("mypy.build")
    st = ix.cls("mypy.build.State")
    mnf = b.functions.get("module_not_found")
    if mnf is None or "parse_file" not in st.methods:
        raise AnalysisError("build.module_not_found / State.parse_file not found")
    # attributes assigned on the parsing path
    seen, todo = set(), ["parse_file"]
    while todo:
        n = todo.pop()
        if n in seen or n not in st.methods:
            continue
        seen.add(n)
        for c in ast.walk(st.methods[n].node):
            if isinstance(c, ast.Call) and isinstance(c.func, ast.Attribute) and isinstance(c.func.value, ast.Name) and c.func.value.id == "self":
                todo.append(c.func.attr)
    parsed_attrs: dict[str, str] = {}
    for n in sorted(seen):
        for a in ast.walk(st.methods[n].node):
            tgts = a.targets if isinstance(a, ast.Assign) else [a.target] if isinstance(a, (ast.AugAssign, ast.AnnAssign)) else []
            for t in tgts:
                if isinstance(t, ast.Attribute) and isinstance(t.value, ast.Name) and t.value.id == "self":
                    parsed_attrs.setdefault(t.attr, n)
    if not {"tree", "options"} <= set(parsed_attrs):
        raise AnalysisError(f"State.parse_file closure {sorted(seen)} assigns {sorted(parsed_attrs)}: `tree` and `options` expected among them")
    par = mnf.module.parents()
    reads: dict[str, list[ast.Attribute]] = {}
    for a in ast.walk(mnf.node):
        if isinstance(a, ast.Attribute) and isinstance(a.value, ast.Name) and a.value.id == "caller_state" and a.attr in parsed_attrs:
            reads.setdefault(a.attr, []).append(a)
    for attr, sites in sorted(reads.items()):
        unguarded = []
        for a in sites:
            # a read is covered when it sits in the true arm of a conditional on caller_state.tree that has another arm,
            # or is the test itself
            p, child, ok = par[a], a, False
            while p is not mnf.node:
                if isinstance(p, (ast.IfExp, ast.If)) and "caller_state.tree" in norm(p.test):
                    other = [p.orelse] if isinstance(p, ast.IfExp) else p.orelse
                    if child is p.test:
                        ok = True
                    else:
                        # the other arm reads something the cache record restores
                        ok = any(isinstance(x, ast.Attribute) and isinstance(x.value, ast.Name) and x.value.id == "caller_state" and x.attr not in parsed_attrs for o in other for x in ast.walk(o))
                    break
                child, p = p, par[p]
            if not ok:
                unguarded.append(a)
        key = f"module_not_found: caller_state.{attr} (assigned by State.{parsed_attrs[attr]}) has a stand-in for a State loaded from the cache"
        if not unguarded:
            r19.ok(key, mnf.loc(sites[0]))
        else:
            r19.violation(key, mnf.loc(unguarded[0]), f"`caller_state.{attr}` is read at {len(unguarded)} place(s) without a `caller_state.tree` alternative: for an importing module loaded from the cache the value is the one State.__init__ computed, not the one parsing would produce (for `options`: inline `# mypy:` configuration such as disable-error-code / ignore-errors is missing), so the warm run reports a missing import the cold run does not")


def run_lookup_memo_independent_of_caller(chk: Check, ix) -> None:
    """R02.20: what FindModuleCache remembers about a module does not depend on who asked first."""
    from ..cfg import branch_conditions
    r20 = chk.rule("R02.20", "FindModuleCache.find_module memoises its answer in `self.results[id]`, keyed by the module id alone, and takes a per-call flag (`fast_path`) that selects a coarser answer (NOT_FOUND where the full lookup says WRONG_WORKING_DIRECTORY). A warm run makes the fast lookup first (load_graph's scan for added modules), a cold run does not, so a store into the memo must not depend on a per-call parameter that is not part of the key: every `self.results[...] = ...` in find_module is reached under conditions that do not mention such a parameter, except through a branch that returns without storing", floor=2)
    c = ix.cls("mypy.modulefinder.FindModuleCache")
    f = c.methods.get("find_module")
    if f is None:
        raise AnalysisError("FindModuleCache.find_module not found")
    a_ = f.node.args
    params = {p.arg for p in a_.posonlyargs + a_.args + a_.kwonlyargs} - {"self"}
    par = f.module.parents()
    n = 0
    for a in ast.walk(f.node):
        if not (isinstance(a, ast.Assign) and isinstance(a.targets[0], ast.Subscript) and norm(a.targets[0].value) == "self.results"):
            continue
        n += 1
        key_names = {x.id for x in ast.walk(a.targets[0].slice) if isinstance(x, ast.Name)}
        extra = params - key_names
        pos, neg = branch_conditions(par, f.node, a, early_exits=True)
        # conditions that merely lead to an early return without a store do not make the stored value depend on them
        dep = set()
        for t in pos:
            dep |= {x.id for x in ast.walk(t) if isinstance(x, ast.Name)} & extra
        for t in neg:
            names = {x.id for x in ast.walk(t) if isinstance(x, ast.Name)} & extra
            if names:
                # negated test of an earlier arm: fine when that arm exits without storing
                arm = next((i for i in ast.walk(f.node) if isinstance(i, ast.If) and norm(i.test) == norm(t)), None)
                stores = arm is not None and any(isinstance(s_, ast.Assign) and isinstance(s_.targets[0], ast.Subscript) and norm(s_.targets[0].value) == "self.results" for st in arm.body for s_ in ast.walk(st))
                exits = arm is not None and isinstance(arm.body[-1], (ast.Return, ast.Raise))
                if stores or not exits:
                    dep |= names
        key = f"find_module: `{norm(a)[:50]}` stores an answer that depends on the key only"
        if not dep:
            r20.ok(key, f.loc(a))
        else:
            r20.violation(key, f.loc(a), f"the store is control-dependent on {sorted(dep)}, which is not part of the memo key {sorted(key_names)}: the first caller's flag decides what every later caller is told (warm: [import-not-found]; cold: [import] with the 'running mypy in a subpackage' note)")
    if n < 2:
        raise AnalysisError(f"find_module: only {n} stores into self.results found")


def run_added_packages_include_namespace_ones(chk: Check, ix) -> None:
    """R02.21: 'this path is a package' means an __init__ file or a directory, wherever build.py asks."""
    r21 = chk.rule("R02.21", "the module finder answers a lookup of a package with the path of its `__init__.py[i]` or, for a namespace package, with the directory itself. build.py has two places that classify such a path as 'a package': State construction (`is_package`-style tests used when a module is found) and exist_added_packages(), which decides whether a previously suppressed import has become importable and its importers must be re-processed. exist_added_packages() accepts both shapes (a base-name test on `__init__` and a directory test on the same path): with the first alone an importer cached while the namespace package was invisible stays fresh and never gets the submodule as a dependency", floor=1)
    b = ix.module("mypy.build")
    f = b.functions.get("exist_added_packages")
    if f is None:
        raise AnalysisError("build.exist_added_packages not found")
    rets = [r for r in ast.walk(f.node) if isinstance(r, ast.Return) and isinstance(r.value, ast.Constant) and r.value.value is True]
    par = f.module.parents()
    from ..cfg import branch_conditions
    shapes = set()
    for r in rets:
        pos, _ = branch_conditions(par, f.node, r)
        for t in pos:
            tx = norm(t)
            if "__init__" in tx and "basename" in tx:
                shapes.add("init-file")
            if "isdir(" in tx:
                shapes.add("directory")
    key = "exist_added_packages: a found path counts as a package when it is an __init__ file or a directory"
    if shapes >= {"init-file", "directory"}:
        r21.ok(key, f.loc())
    elif "init-file" not in shapes:
        raise AnalysisError(f"exist_added_packages: no `return True` under a base-name test on __init__ found ({sorted(shapes)})")
    else:
        r21.violation(key, f.loc(rets[0]) if rets else f.loc(), "only the `__init__.py[i]` shape returns True: for a namespace package (find_module returns the directory) the importers are not invalidated; `from ns import mod` cached while `ns` was invisible keeps reporting 'Module \"ns\" has no attribute \"mod\"' on every later run")


def run_hash_match_keeps_file_kind(chk: Check, ix) -> None:
    """R02.22: a record is re-attached to a different path only if that path is checked the same way."""
    from ..cfg import CFG
    r22 = chk.rule("R02.22", "validate_meta accepts a record whose path or mtime changed when the file's hash still matches and rewrites `meta.path = path`. The hash covers the text only; the same text is checked differently as a stub (function bodies are not checked, `...` bodies are fine), so the statement that re-attaches the record to a new path is reached only through a rejecting test that compares the stub-ness of the two paths (`path.endswith('.pyi') != meta.path.endswith('.pyi')`)", floor=1)
    vm = ix.func("mypy.build.validate_meta")
    g = CFG(vm.node)
    reattach = [nd for nd in g.nodes if nd.kind == "stmt" and isinstance(nd.stmt, ast.Assign) and norm(nd.stmt.targets[0]) == "meta.path"]
    if not reattach:
        raise AnalysisError("validate_meta: no `meta.path = ...` re-attachment found")
    kind_ifs = [i_ for i_ in ast.walk(vm.node) if isinstance(i_, ast.If) and norm(i_.test).count(".endswith('.pyi')") >= 2 and "meta.path" in norm(i_.test) and any(isinstance(x, ast.NotEq) for c in ast.walk(i_.test) if isinstance(c, ast.Compare) for x in c.ops) and any(isinstance(st, ast.Return) and isinstance(st.value, ast.Constant) and st.value.value is None for st in i_.body)]
    kind_tests = [nd for nd in g.nodes if nd.kind == "test" and nd.stmt in kind_ifs]
    for nd in reattach:
        key = f"validate_meta: `{norm(nd.stmt)}` only between files of the same kind (source / stub)"
        ok = any(g.must_pass(g.entry, [nd], [t], labels_excluded=("exc",)) for t in kind_tests)
        if ok:
            r22.ok(key, vm.loc(nd.stmt))
        else:
            r22.violation(key, vm.loc(nd.stmt), "the record is moved to the new path on a hash match alone: when `a.pyi` with the text of `a.py` appears (or disappears), the warm run replays the other file kind's diagnostics (`a.py:1: error: Missing return statement [empty-body]` although the stub is what is imported)")
