"""Seeded-variant self-test of the checkers: each variant is a small edit of a scratch copy of the
current /repo tree (symlinks + the edited file, under a temp dir outside /repo and /verif) that must
still compile and must make exactly the named rule of the named property report a violation.

Run: /venv/bin/python -m sa.selftest [name-substring ...]      (uses all cores)
The result is *recorded, not judged*: it never changes the verdict of a property check.
"""

from __future__ import annotations

import json
import os
import shutil
import subprocess
import sys
import tempfile
from concurrent.futures import ThreadPoolExecutor

from .index import EXCLUDE_DIRS, REPO

VERIF = os.path.dirname(os.path.dirname(os.path.abspath(__file__)))


def load_variants() -> list[dict]:
    with open(os.path.join(VERIF, "sa", "variants.json")) as f:
        return json.load(f)["variants"]


def make_tree(dst: str, edits: dict[str, str]) -> None:
    """Scratch copy: directories are real, files are symlinks to /repo, edited files are real."""
    for pkg in ("mypy", "mypyc"):
        base = os.path.join(REPO, pkg)
        for dp, dns, fns in os.walk(base):
            dns[:] = [d for d in dns if d not in ("typeshed", "__pycache__", "test-data") and not (d == "test" and "lib-rt" not in dp)]
            rel = os.path.relpath(dp, REPO)
            os.makedirs(os.path.join(dst, rel), exist_ok=True)
            for fn in fns:
                if fn.endswith((".pyc", ".so", ".o")):
                    continue
                relf = os.path.join(rel, fn)
                if relf in edits:
                    with open(os.path.join(dst, relf), "w") as f:
                        f.write(edits[relf])
                else:
                    os.symlink(os.path.join(dp, fn), os.path.join(dst, relf))
    os.makedirs(os.path.join(dst, "docs", "source"), exist_ok=True)
    for fn in ("config_file.rst", "command_line.rst"):
        src = os.path.join(REPO, "docs", "source", fn)
        rel = os.path.join("docs", "source", fn)
        if rel in edits:
            with open(os.path.join(dst, rel), "w") as f:
                f.write(edits[rel])
        elif os.path.exists(src):
            os.symlink(src, os.path.join(dst, rel))


def run_variant(v: dict) -> dict:
    res = {"name": v["name"], "property": v["property"], "rule": v["rule"]}
    path = os.path.join(REPO, v["file"])
    try:
        src = open(path).read()
    except OSError as e:
        return {**res, "status": "skipped", "why": f"file missing: {e}"}
    new = src
    for ed in v["edits"]:
        if new.count(ed["find"]) < 1:
            return {**res, "status": "skipped", "why": f"anchor text not found: {ed['find'][:50]!r}"}
        new = new.replace(ed["find"], ed["replace"], ed.get("count", 1))
    if v["file"].endswith(".py"):
        try:
            compile(new, v["file"], "exec")
        except SyntaxError as e:
            return {**res, "status": "broken-variant", "why": f"does not compile: {e}"}
    tmp = tempfile.mkdtemp(prefix="sa_selftest_")
    try:
        make_tree(os.path.join(tmp, "repo"), {v["file"]: new})
        env = dict(os.environ, VERIF_REPO=os.path.join(tmp, "repo"), VERIF_EVIDENCE_DIR=os.path.join(tmp, "ev"), VERIF_TIER="quick")
        p = subprocess.run([sys.executable, "-m", "sa.check", v["property"], "--tier", "quick"], cwd=VERIF, env=env, capture_output=True, text=True, timeout=600)
        lines = p.stdout.splitlines()
        hits = [l for l in lines if l.startswith("  " + v["rule"] + " ")]
        others = sorted({l.split()[0] for l in lines if l.startswith("  R") and not l.startswith("  " + v["rule"] + " ")})
        if v.get("expect") == "silent":
            # behaviour-preserving edit: the check must stay silent
            allhits = [l for l in lines if l.startswith("  R")]
            status = "fired" if p.returncode == 0 else ("FALSE-ALARM" if p.returncode == 1 else "analysis-error")
            return {**res, "status": status, "exit": p.returncode, "hits": len(allhits), "kind": "benign", "first": (allhits[0][:220] if allhits else next((l[:220] for l in lines if "ANALYSIS-ERROR" in l), ""))}
        if p.returncode == 1 and hits and (not v.get("expect_text") or any(v["expect_text"] in h for h in hits)):
            status = "fired"
        elif p.returncode == 2:
            status = "analysis-error"
        else:
            status = "MISSED"
        return {**res, "status": status, "exit": p.returncode, "hits": len(hits), "other_rules_fired": others, "first": (hits[0][:200] if hits else (lines[-1][:200] if lines else ""))}
    finally:
        shutil.rmtree(tmp, ignore_errors=True)


def seed_edits(patch_path: str) -> dict[str, str]:
    """path -> new content, from applying a kept seeded patch to copies of the touched files."""
    import re
    txt = open(patch_path).read()
    paths = sorted(set(re.findall(r"^\+\+\+ b/(\S+)", txt, re.M)))
    tmp = tempfile.mkdtemp(prefix="seedpatch_")
    try:
        for q in paths:
            os.makedirs(os.path.dirname(os.path.join(tmp, q)), exist_ok=True)
            if os.path.exists(os.path.join(REPO, q)):
                shutil.copy(os.path.join(REPO, q), os.path.join(tmp, q))
        r = subprocess.run(["patch", "-p1", "-s", "-i", patch_path], cwd=tmp, capture_output=True, text=True)
        if r.returncode != 0:
            raise RuntimeError(f"patch does not apply to the current tree: {r.stdout} {r.stderr}"[:300])
        return {q: open(os.path.join(tmp, q)).read() for q in paths}
    finally:
        shutil.rmtree(tmp, ignore_errors=True)


def seed_patch(sd: str) -> str:
    """The patch of a kept seeded change: as delivered (patch.diff), or, when a later repair of /repo
    touched the same lines, its re-based form (patch.current.diff; same change, refreshed context)."""
    cur = os.path.join(sd, "patch.current.diff")
    return cur if os.path.exists(cur) else os.path.join(sd, "patch.diff")


def run_seed_for(pid: str, sid: str) -> dict:
    sd = os.path.join(VERIF, "seeded", sid)
    res = {"name": "seeded/" + sid, "property": pid, "rule": "*"}
    try:
        edits = seed_edits(seed_patch(sd))
    except (RuntimeError, OSError) as e:
        return {**res, "status": "skipped", "why": str(e)}
    tmp = tempfile.mkdtemp(prefix="sa_selftest_")
    try:
        make_tree(os.path.join(tmp, "repo"), edits)
        env = dict(os.environ, VERIF_REPO=os.path.join(tmp, "repo"), VERIF_EVIDENCE_DIR=os.path.join(tmp, "ev"), VERIF_TIER="quick")
        p = subprocess.run([sys.executable, "-m", "sa.check", pid, "--tier", "quick"], cwd=VERIF, env=env, capture_output=True, text=True, timeout=900)
        hits = sorted({l.split()[0] for l in p.stdout.splitlines() if l.startswith("  R")})
        status = "fired" if p.returncode == 1 else ("analysis-error" if p.returncode == 2 else "MISSED")
        return {**res, "status": status, "exit": p.returncode, "rules_fired": hits}
    finally:
        shutil.rmtree(tmp, ignore_errors=True)


def for_property(pid: str) -> dict:
    """Seeded variants and kept seeded changes of one property, run against scratch copies (recorded, not judged)."""
    vs = [v for v in load_variants() if v["property"] == pid]
    seeds = []
    sroot = os.path.join(VERIF, "seeded")
    for d in sorted(os.listdir(sroot)) if os.path.isdir(sroot) else []:
        mp = os.path.join(sroot, d, "meta.json")
        if os.path.exists(mp):
            try:
                if json.load(open(mp)).get("property") == pid:
                    seeds.append(d)
            except ValueError:
                pass
    with ThreadPoolExecutor(max_workers=min(16, os.cpu_count() or 4)) as ex:
        futs = [ex.submit(run_variant, v) for v in vs] + [ex.submit(run_seed_for, pid, s_) for s_ in seeds]
        results = [f.result() for f in futs]
    return {
        "seeded_variants_run": len(results),
        "seeded_variants_fired": sum(1 for r in results if r["status"] == "fired"),
        "seeded_variants_skipped": [r["name"] for r in results if r["status"] == "skipped"],
        "seeded_variants_not_fired": [f"{r['name']} ({r['status']})" for r in results if r["status"] not in ("fired", "skipped")],
        "benign_variants_run": sum(1 for r in results if r.get("kind") == "benign"),
        "benign_variants_silent": sum(1 for r in results if r.get("kind") == "benign" and r["status"] == "fired"),
        "seeded_variant_results": [{k: r.get(k) for k in ("name", "rule", "status", "hits", "rules_fired", "other_rules_fired", "why")} for r in results],
    }


def main(argv=None) -> int:
    argv = list(sys.argv[1:] if argv is None else argv)
    vs = load_variants()
    if argv:
        vs = [v for v in vs if any(a in v["name"] or a == v["property"] for a in argv)]
    with ThreadPoolExecutor(max_workers=min(16, os.cpu_count() or 4)) as ex:
        results = list(ex.map(run_variant, vs))
    fired = [r for r in results if r["status"] == "fired"]
    for r in results:
        print(f"{r['status']:15} {r['property']} {r['rule']:7} {r['name']}" + (f"   [{r.get('why') or r.get('first', '')[:110]}]" if r["status"] != "fired" else "") + (f"   (+{','.join(r['other_rules_fired'])})" if r.get("other_rules_fired") else ""))
    print(f"{len(fired)}/{len(results)} variants fired")
    out = os.path.join(VERIF, "selftest_results.json")
    with open(out, "w") as f:
        json.dump({"variants_run": len(results), "variants_fired": len(fired), "results": results}, f, indent=1)
    return 0


if __name__ == "__main__":
    sys.exit(main())
