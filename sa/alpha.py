#!/usr/bin/env python3
"""Robustness sweep: for every function a rule pack anchors by name (ix.func("...") in sa/rules/cNN.py),
build a scratch copy of /repo in which all *local variables* of that function are renamed
(behaviour-preserving), and require the pack's check to stay silent (exit 0).
Usage: /venv/bin/python -m sa.alpha [C09 ...]   -> alpha_results.json"""
import ast, json, os, re, shutil, subprocess, sys, tempfile
from concurrent.futures import ThreadPoolExecutor

VERIF = os.path.dirname(os.path.dirname(os.path.abspath(__file__)))
from .index import REPO, get_index  # noqa: E402
from .selftest import make_tree  # noqa: E402


def anchored() -> dict[str, list[str]]:
    out = {}
    for fn in sorted(os.listdir(os.path.join(VERIF, "sa", "rules"))):
        m = re.match(r"c(\d\d)\.py$", fn)
        if not m:
            continue
        src = open(os.path.join(VERIF, "sa", "rules", fn)).read()
        out["C" + m.group(1)] = sorted(set(re.findall(r'ix\.func\(\s*"([\w.]+)"\s*\)', src)))
    return out


class Renamer(ast.NodeTransformer):
    def __init__(self, names):
        self.names = names

    def visit_Name(self, n):
        if n.id in self.names:
            n.id = "v_" + n.id
        return n

    def visit_arg(self, n):
        return n

    def visit_FunctionDef(self, n):
        return n  # nested functions are left alone (their free variables are excluded below)

    visit_AsyncFunctionDef = visit_Lambda = visit_FunctionDef


def rename_locals(func: ast.FunctionDef) -> ast.FunctionDef | None:
    params = {a.arg for a in func.args.args + func.args.kwonlyargs + func.args.posonlyargs}
    if func.args.vararg:
        params.add(func.args.vararg.arg)
    if func.args.kwarg:
        params.add(func.args.kwarg.arg)
    stores, nested_uses, declared = set(), set(), set()
    for n in ast.walk(func):
        if isinstance(n, (ast.Global, ast.Nonlocal)):
            declared |= set(n.names)
    def walk(node, top):
        for ch in ast.iter_child_nodes(node):
            if isinstance(ch, (ast.FunctionDef, ast.AsyncFunctionDef, ast.Lambda, ast.ClassDef)):
                for x in ast.walk(ch):
                    if isinstance(x, ast.Name):
                        nested_uses.add(x.id)
                continue
            if isinstance(ch, ast.Name) and isinstance(ch.ctx, (ast.Store, ast.Del)):
                stores.add(ch.id)
            walk(ch, False)
    walk(func, True)
    # comprehension targets are stores too (already Names with Store ctx)
    names = stores - params - declared - nested_uses
    if not names:
        return None
    new = Renamer(names)
    body = [new.visit(st) if not isinstance(st, (ast.FunctionDef, ast.AsyncFunctionDef)) else st for st in func.body]
    func.body = body
    return func


def variant(qual: str, ix):
    f = ix.functions.get(qual)
    if f is None:
        return None
    src = open(os.path.join(REPO, f.module.relpath)).read()
    tree = ast.parse(src)
    target = None
    for n in ast.walk(tree):
        if isinstance(n, (ast.FunctionDef, ast.AsyncFunctionDef)) and n.lineno == f.node.lineno and n.name == f.name:
            target = n
    if target is None:
        return None
    start = target.lineno - 1 - 0
    if target.decorator_list:
        start = min(d.lineno for d in target.decorator_list) - 1
    end = target.end_lineno
    lines = src.splitlines(keepends=True)
    indent = re.match(r"\s*", lines[target.lineno - 1]).group(0)
    if rename_locals(target) is None:
        return None
    text = ast.unparse(target)
    new_lines = [indent + l + "\n" for l in text.splitlines()]
    new_src = "".join(lines[:start] + new_lines + lines[end:])
    try:
        compile(new_src, f.module.relpath, "exec")
    except SyntaxError:
        return None
    return f.module.relpath, new_src


def run_one(args):
    pid, qual, relpath, new_src = args
    tmp = tempfile.mkdtemp(prefix="sa_alpha_")
    try:
        make_tree(os.path.join(tmp, "repo"), {relpath: new_src})
        env = dict(os.environ, VERIF_REPO=os.path.join(tmp, "repo"), VERIF_EVIDENCE_DIR=os.path.join(tmp, "ev"), VERIF_TIER="quick")
        p = subprocess.run([sys.executable, "-m", "sa.check", pid, "--tier", "quick"], cwd=VERIF, env=env, capture_output=True, text=True, timeout=900)
        first = next((l[:260] for l in p.stdout.splitlines() if l.startswith("  R") or "ANALYSIS-ERROR" in l), "")
        return {"property": pid, "function": qual, "exit": p.returncode, "first": first}
    finally:
        shutil.rmtree(tmp, ignore_errors=True)


def for_property(pid: str) -> dict:
    """Alpha-rename sweep of the functions the property's pack anchors (recorded, not judged)."""
    ix = get_index()
    jobs = []
    for q in anchored().get(pid, []):
        v = variant(q, ix)
        if v:
            jobs.append((pid, q, v[0], v[1]))
    with ThreadPoolExecutor(max_workers=12) as ex:
        res = list(ex.map(run_one, jobs))
    return {"alpha_renamed_functions_run": len(res), "alpha_renamed_functions_silent": sum(1 for r in res if r["exit"] == 0), "alpha_renamed_functions_not_silent": [f"{r['function']} (exit {r['exit']}): {r['first'][:120]}" for r in res if r["exit"] != 0]}


def main():
    sel = sys.argv[1:]
    ix = get_index()
    jobs = []
    for pid, quals in anchored().items():
        if sel and pid not in sel:
            continue
        for q in quals:
            v = variant(q, ix)
            if v:
                jobs.append((pid, q, v[0], v[1]))
    with ThreadPoolExecutor(max_workers=12) as ex:
        res = list(ex.map(run_one, jobs))
    bad = [r for r in res if r["exit"] != 0]
    for r in bad:
        print(f"{'FALSE-ALARM' if r['exit'] == 1 else 'analysis-error'} {r['property']} {r['function']}: {r['first']}")
    print(f"{len(res) - len(bad)}/{len(res)} alpha-renamed functions left their check silent")
    json.dump({"run": len(res), "silent": len(res) - len(bad), "not_silent": bad}, open(os.path.join(VERIF, "alpha_results.json"), "w"), indent=1)


if __name__ == "__main__":
    main()
