"""Extraction of the JSON serializers' key/attribute maps (serialize / deserialize pairs)."""

from __future__ import annotations

import ast

from .index import AnalysisError, ClassInfo, FuncInfo, Index, norm
from .wire import Wire, mentions, root_label


def serialize_map(f: FuncInfo) -> tuple[dict[str, str], list[str]]:
    """key -> source label for every key the JSON writer produces; notes for non-dict shortcuts."""
    out: dict[str, str] = {}
    notes: list[str] = []
    dict_locals: set[str] = set()
    for n in ast.walk(f.node):
        if isinstance(n, (ast.Assign, ast.AnnAssign)) and isinstance(n.value, ast.Dict):
            t = n.targets[0] if isinstance(n, ast.Assign) else n.target
            if isinstance(t, ast.Name):
                dict_locals.add(t.id)
    for n in ast.walk(f.node):
        if isinstance(n, ast.Dict):
            ks = [k.value for k in n.keys if isinstance(k, ast.Constant) and isinstance(k.value, str)]
            if not ks:
                continue
            for k, v in zip(n.keys, n.values):
                if isinstance(k, ast.Constant) and isinstance(k.value, str):
                    out.setdefault(k.value, label_of_value(v))
        elif isinstance(n, ast.Assign) and isinstance(n.targets[0], ast.Subscript):
            t = n.targets[0]
            if isinstance(t.value, ast.Name) and t.value.id in dict_locals and isinstance(t.slice, ast.Constant) and isinstance(t.slice.value, str):
                lab = label_of_value(n.value)
                if lab == "const":
                    # data["k"] = True under `if [not] self.attr:` records that attribute
                    p = f.module.parents().get(n)
                    if isinstance(p, ast.If):
                        tst = p.test.operand if isinstance(p.test, ast.UnaryOp) else p.test
                        if isinstance(tst, ast.Attribute):
                            lab = root_label(tst)
                out[t.slice.value] = lab if out.get(t.slice.value, "const") == "const" else out[t.slice.value]
    for n in ast.walk(f.node):
        if isinstance(n, ast.Return) and n.value is not None and not isinstance(n.value, (ast.Dict, ast.Name)):
            notes.append(f"non-dict return: {norm(n.value)[:50]}")
    return out, notes


def label_of_value(v: ast.expr) -> str:
    if isinstance(v, ast.Call) and isinstance(v.func, ast.Name) and v.func.id == "get_flags" and len(v.args) == 2:
        return "flags:" + norm(v.args[1])
    if isinstance(v, ast.IfExp):
        a, b = v.body, v.orelse
        pick = b if (isinstance(a, ast.Constant) and a.value is None) else a
        return label_of_value(pick)
    if isinstance(v, ast.Call) and isinstance(v.func, ast.Attribute) and v.func.attr in ("serialize", "hex") :
        return root_label(v.func.value)
    if isinstance(v, ast.Constant):
        return "const"
    if isinstance(v, (ast.List, ast.Tuple)) and v.elts:
        # a value re-encoded piecewise ([self.x.real, self.x.imag]) still comes from self.x
        roots = {root_label(e).split(".")[0] for e in v.elts}
        if len(roots) == 1:
            return roots.pop()
    if isinstance(v, ast.Subscript) and isinstance(v.value, ast.Name) and isinstance(v.slice, ast.Attribute):
        return root_label(v.slice)  # table lookup keyed by an attribute: node_kinds[self.kind]
    return root_label(v)


def deserialize_map(W: Wire, f: FuncInfo) -> dict[str, dict]:
    """key -> {dest label, optional (read via .get)} for every key the JSON reader consumes."""
    params = [a.arg for a in f.params]
    if len(params) < 2:
        raise AnalysisError(f"{f.qualname}: no data parameter")
    dname = params[1]
    out: dict[str, dict] = {}
    parents = f.module.parents()
    # locals holding (parts of) the JSON record: value = data["value"]
    derived = set()
    for n in ast.walk(f.node):
        if isinstance(n, ast.Assign) and isinstance(n.targets[0], ast.Name) and isinstance(n.value, ast.Subscript) and isinstance(n.value.value, ast.Name) and n.value.value.id == dname:
            derived.add(n.targets[0].id)
    for n in ast.walk(f.node):
        key = None
        optional = False
        if isinstance(n, ast.Subscript) and isinstance(n.value, ast.Name) and isinstance(n.slice, ast.Constant) and isinstance(n.slice.value, str) and (n.value.id == dname or n.value.id in derived):
            key = n.slice.value
        elif isinstance(n, ast.Call) and isinstance(n.func, ast.Attribute) and n.func.attr == "get" and isinstance(n.func.value, ast.Name) and n.func.value.id == dname and n.args and isinstance(n.args[0], ast.Constant):
            key = n.args[0].value
            optional = True
        elif isinstance(n, ast.Compare) and isinstance(n.left, ast.Constant) and isinstance(n.left.value, str) and len(n.ops) == 1 and isinstance(n.ops[0], (ast.In, ast.NotIn)) and isinstance(n.comparators[0], ast.Name) and n.comparators[0].id == dname:
            out.setdefault(n.left.value, {"dest": None, "optional": True})["optional"] = True
            continue
        if key is None:
            continue
        dest = dest_of(W, f, n, parents)
        ent = out.setdefault(key, {"dest": dest, "optional": optional})
        if ent["dest"] is None and dest is not None:
            ent["dest"] = dest
        ent["optional"] = ent["optional"] and optional
    return out


def dest_of(W: Wire, f: FuncInfo, node: ast.AST, parents) -> str | None:
    """Destination of the value `node` evaluates to: walk up to the statement / call argument."""
    cur = node
    while True:
        p = parents.get(cur)
        if p is None or p is f.node:
            return None
        if isinstance(p, ast.Call) and cur is not p.func:
            fn = p.func
            if isinstance(fn, ast.Name) and fn.id == "set_flags":
                return "flags"
            r = W.ix.resolve_expr_static(f.module, fn) if isinstance(fn, (ast.Name, ast.Attribute)) else None
            if isinstance(fn, ast.Name) and fn.id == "cls" and f.cls is not None:
                r = ("class", f.cls)
            if r is not None and r[0] == "class":
                init = r[1].lookup_method("__init__")
                ps = [a.arg for a in init.params][1:] if init else []
                for i, a in enumerate(p.args):
                    if a is cur and i < len(ps):
                        return W.param_attr(r[1], ps[i])
                for k in p.keywords:
                    if (k.value is cur or k is cur) and k.arg:
                        return W.param_attr(r[1], k.arg)
            elif isinstance(fn, ast.Attribute) and isinstance(fn.value, ast.Name):
                rr = W.ix.resolve_expr_static(f.module, fn.value)
                if rr is not None and rr[0] == "class" and fn.attr not in ("deserialize",):
                    m = rr[1].lookup_method(fn.attr)
                    if m is not None:
                        static = any(isinstance(d, ast.Name) and d.id == "staticmethod" for d in m.node.decorator_list)
                        ps = [a.arg for a in m.params][0 if static else 1 :]
                        for i, a in enumerate(p.args):
                            if a is cur and i < len(ps):
                                return W.param_attr(rr[1], ps[i])
                        for k in p.keywords:
                            if (k.value is cur or k is cur) and k.arg:
                                return W.param_attr(rr[1], k.arg)
            # wrapper call (deserialize_type(data["x"]), set(...), Instance.deserialize(...)): keep walking
            cur = p
            continue
        if isinstance(p, (ast.Assign, ast.AnnAssign)):
            t = p.targets[0] if isinstance(p, ast.Assign) else p.target
            if isinstance(t, ast.Attribute):
                return t.attr
            if isinstance(t, ast.Name):
                return W.local_destination(f, t.id) or ("$" + t.id)
            if isinstance(t, ast.Tuple):
                return None
            return None
        if isinstance(p, (ast.For, ast.comprehension)):
            # `for p in data["_promote"]:` -> where do the elements go
            tgt = p.target
            if isinstance(tgt, ast.Name):
                d = W.local_destination(f, tgt.id)
                if d:
                    return d
            cur = p
            continue
        if isinstance(p, (ast.Return,)):
            return "RET"
        if isinstance(p, (ast.Assert, ast.If, ast.Compare)) and not isinstance(p, ast.Compare):
            return "<test>"
        if isinstance(p, ast.stmt):
            return None
        cur = p
