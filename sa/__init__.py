"""Static analysis of python/mypy against /verif/properties.jsonl.

Nothing in this package imports, runs or symbolically executes code from /repo:
every decision is taken from the syntax trees of /repo's current working tree.
"""
