"""Local-name normalisation against a committed reference.

Rules name the constructs they check, and a construct's text contains the names of local
variables.  Renaming a local is behaviour-preserving, so it must not change a verdict.  For the
functions of the modules the rule packs look at, `tables/local_names.json` records, per function,
each local variable together with a *definition signature*: the multiset of its binding
occurrences (assigned expression, loop iterable, with-item, handler type ...) with every local name
abstracted away.  When a tree is indexed, a function whose set of local names differs from the
reference gets its unknown locals mapped back to the reference names with the same signature
(in-place, in the parsed tree only), so the rules see the names they were written against.
A name whose defining expressions changed is left alone, as is everything when the signatures
are ambiguous: the normalisation can only remove differences, never invent a construct.

Regenerate (by hand, after /repo changed):  /venv/bin/python -m sa.localref
"""

from __future__ import annotations

import ast
import json
import os
import re

VERIF = os.path.dirname(os.path.dirname(os.path.abspath(__file__)))
REF_PATH = os.path.join(VERIF, "tables", "local_names.json")


def _params(func: ast.AST) -> set[str]:
    a = func.args
    out = {x.arg for x in [*a.posonlyargs, *a.args, *a.kwonlyargs]}
    if a.vararg:
        out.add(a.vararg.arg)
    if a.kwarg:
        out.add(a.kwarg.arg)
    return out


def _own_nodes(func: ast.AST):
    """Nodes of the function body, not descending into nested function/class definitions."""
    todo = list(func.body)
    while todo:
        n = todo.pop()
        yield n
        if isinstance(n, (ast.FunctionDef, ast.AsyncFunctionDef, ast.ClassDef, ast.Lambda)):
            continue
        todo.extend(ast.iter_child_nodes(n))


def local_names(func: ast.AST) -> set[str]:
    declared = set()
    for n in _own_nodes(func):
        if isinstance(n, (ast.Global, ast.Nonlocal)):
            declared |= set(n.names)
    stores = {n.id for n in _own_nodes(func) if isinstance(n, ast.Name) and isinstance(n.ctx, (ast.Store, ast.Del))}
    stores |= {n.name for n in _own_nodes(func) if isinstance(n, ast.ExceptHandler) and n.name}
    return stores - _params(func) - declared


class _Blank(ast.NodeTransformer):
    def __init__(self, locs):
        self.locs = locs

    def visit_Name(self, n):
        return ast.copy_location(ast.Name(id="_", ctx=n.ctx), n) if n.id in self.locs else n


def _abstract(e: ast.AST | None, locs: set[str]) -> str:
    """Normalised text of e with every *Name node* that is a local replaced by `_` (keyword
    names, attribute names and strings are left alone)."""
    if e is None:
        return "-"
    if locs and any(isinstance(x, ast.Name) and x.id in locs for x in ast.walk(e)):
        import copy
        e = _Blank(locs).visit(copy.deepcopy(e))
    return " ".join(ast.unparse(e).split())


def _targets(t: ast.AST):
    if isinstance(t, ast.Name):
        yield t.id, ""
    elif isinstance(t, (ast.Tuple, ast.List)):
        for i, e in enumerate(t.elts):
            for nm, pos in _targets(e):
                yield nm, f"[{i}]{pos}"
    elif isinstance(t, ast.Starred):
        yield from _targets(t.value)


def signatures(func: ast.AST) -> dict[str, str]:
    locs = local_names(func)
    sig: dict[str, list[str]] = {n: [] for n in locs}

    def add(target, kind, value):
        for nm, pos in _targets(target):
            if nm in sig:
                sig[nm].append(f"{kind}{pos}:{_abstract(value, locs)}")

    for n in _own_nodes(func):
        if isinstance(n, ast.Assign):
            for t in n.targets:
                add(t, "=", n.value)
        elif isinstance(n, ast.AnnAssign):
            add(n.target, "=", n.value)
        elif isinstance(n, ast.AugAssign):
            add(n.target, "aug" + type(n.op).__name__, n.value)
        elif isinstance(n, (ast.For, ast.AsyncFor)):
            add(n.target, "for", n.iter)
        elif isinstance(n, ast.comprehension):
            add(n.target, "comp", n.iter)
        elif isinstance(n, (ast.With, ast.AsyncWith)):
            for it in n.items:
                if it.optional_vars is not None:
                    add(it.optional_vars, "with", it.context_expr)
        elif isinstance(n, ast.ExceptHandler) and n.name and n.name in sig:
            sig[n.name].append("except:" + _abstract(n.type, locs))
        elif isinstance(n, ast.NamedExpr):
            add(n.target, ":=", n.value)
    return {k: " ; ".join(sorted(v)) for k, v in sig.items()}


def _first_use_order(func: ast.AST) -> dict[str, int]:
    order: dict[str, int] = {}
    for n in sorted((x for x in _own_nodes(func) if isinstance(x, ast.Name)), key=lambda x: (x.lineno, x.col_offset)):
        order.setdefault(n.id, len(order))
    return order


def load_reference() -> dict:
    try:
        with open(REF_PATH) as f:
            return json.load(f)["functions"]
    except (OSError, ValueError, KeyError):
        return {}


def normalise(func: ast.AST, ref: dict[str, str]) -> dict[str, str]:
    """Rename, in place, locals of `func` that the reference does not know to the reference name
    with the same definition signature.  Returns the mapping applied (current -> reference)."""
    if local_names(func) <= set(ref):
        return {}
    cur = signatures(func)
    unknown = [n for n in cur if n not in ref]
    free = [n for n in ref if n not in cur]
    if not unknown or not free:
        return {}
    by_sig: dict[str, list[str]] = {}
    for n in free:
        by_sig.setdefault(ref[n], []).append(n)
    # signatures are computed with *all* locals abstracted, so a pure renaming keeps them equal
    order = _first_use_order(func)
    mapping: dict[str, str] = {}
    groups: dict[str, list[str]] = {}
    for n in unknown:
        groups.setdefault(cur[n], []).append(n)
    for s, names in groups.items():
        cands = by_sig.get(s, [])
        if len(cands) != len(names):
            continue
        if len(names) == 1:
            mapping[names[0]] = cands[0]
        else:
            # several indistinguishable locals (`i = 0`): keep the reference's order of first use
            names.sort(key=lambda x: order.get(x, 1 << 30))
            cands_sorted = cands  # reference stores names in first-use order
            for a, b in zip(names, cands_sorted):
                mapping[a] = b
    if not mapping:
        return {}
    params = _params(func)
    for n in _own_nodes(func):
        if isinstance(n, ast.Name) and n.id in mapping and n.id not in params:
            n.id = mapping[n.id]
        elif isinstance(n, ast.ExceptHandler) and n.name in mapping:
            n.name = mapping[n.name]
    # nested functions may read the renamed locals as free variables
    for n in _own_nodes(func):
        if isinstance(n, (ast.FunctionDef, ast.AsyncFunctionDef, ast.Lambda)):
            inner_locals = set() if isinstance(n, ast.Lambda) else local_names(n)
            inner_params = _params(n)
            for x in ast.walk(n):
                if isinstance(x, ast.Name) and x.id in mapping and x.id not in inner_locals and x.id not in inner_params:
                    x.id = mapping[x.id]
    return mapping


def main() -> None:
    import sys
    sys.path.insert(0, VERIF)
    from sa.index import get_index
    ix = get_index()
    # modules the rule packs look at
    mods = set()
    for fn in os.listdir(os.path.join(VERIF, "sa", "rules")):
        if fn.endswith(".py"):
            src = open(os.path.join(VERIF, "sa", "rules", fn)).read()
            for q in re.findall(r'"((?:mypy|mypyc)(?:\.\w+)+)"', src):
                parts = q.split(".")
                for k in range(len(parts), 0, -1):
                    if ".".join(parts[:k]) in ix.modules:
                        mods.add(".".join(parts[:k]))
                        break
    out = {}
    for q, f in sorted(ix.functions.items()):
        if f.module.name in mods and f.parent is None:
            sig = signatures(f.node)
            if sig:
                order = _first_use_order(f.node)
                out[q] = {k: sig[k] for k in sorted(sig, key=lambda x: order.get(x, 1 << 30))}
    os.makedirs(os.path.dirname(REF_PATH), exist_ok=True)
    with open(REF_PATH, "w") as fh:
        json.dump({"comment": "reference local names of the functions in the modules the rule packs look at (see sa/localref.py); regenerate with `python -m sa.localref`", "functions": out}, fh, indent=0, sort_keys=False)
        fh.write("\n")
    print(f"{len(out)} functions in {len(mods)} modules; {os.path.getsize(REF_PATH) // 1024} KiB")


if __name__ == "__main__":
    main()
