"""Component-coverage matrix: which type-valued fields of each Type subclass a visitor reaches.

Rows are visitor classes that must reach every nested type (or symbol reference); columns are, for
each concrete `mypy.types.Type` subclass, its type-valued fields computed from the annotations of
`__init__` parameters (Type, ProperType, Instance, list[Type], Sequence[...], dict[str, Type],
`X | None`, LiteralType, TypeVarLikeType ...).  A cell is covered when the visitor's `visit_T`
(own or inherited, plus same-class helpers the parameter flows into) reads `param.field`.
"""

from __future__ import annotations

import ast

from .index import AnalysisError, ClassInfo, FuncInfo, Index, norm

TYPE_WORDS = ("Type", "ProperType", "Instance", "LiteralType", "TypeVarLikeType", "CallableType", "FunctionLike", "TupleType", "TypedDictType", "Parameters", "TypeVarType", "ParamSpecType", "UnionType", "TypeAliasType")


def is_type_valued(ann_text: str) -> bool:
    import re
    toks = set(re.findall(r"[A-Za-z_][A-Za-z_0-9]*", ann_text))
    if "Bogus" in toks:
        toks.discard("Bogus")
    return bool(toks & set(TYPE_WORDS)) and not toks <= {"type", "TypeOfAny"}


def type_classes(ix: Index) -> list[ClassInfo]:
    base = ix.cls("mypy.types.Type")
    out = []
    for c in [base] + base.all_subclasses():
        if c.module.name != "mypy.types":
            continue
        acc = c.methods.get("accept")
        if acc is None:
            continue
        if any(isinstance(n, ast.Raise) for n in acc.node.body):
            continue
        out.append(c)
    return sorted(out, key=lambda c: c.qualname)


def visit_method_name(c: ClassInfo) -> str | None:
    acc = c.methods.get("accept")
    if acc is None:
        return None
    names = []
    for n in ast.walk(acc.node):
        if isinstance(n, ast.Call) and isinstance(n.func, ast.Attribute) and n.func.attr.startswith("visit_"):
            names.append(n.func.attr)
    return names[0] if names else None


def type_fields(ix: Index, c: ClassInfo) -> dict[str, str]:
    """attribute -> annotation text, for type-valued attributes set from __init__ parameters."""
    out: dict[str, str] = {}
    for k in c.mro():
        if k.module.name != "mypy.types":
            continue
        init = k.methods.get("__init__")
        if init is None:
            continue
        pann = {a.arg: a.annotation for a in init.params}
        for n in ast.walk(init.node):
            tgt = val = ann = None
            if isinstance(n, ast.Assign) and len(n.targets) == 1:
                tgt, val = n.targets[0], n.value
            elif isinstance(n, ast.AnnAssign):
                tgt, val, ann = n.target, n.value, n.annotation
            else:
                continue
            if not (isinstance(tgt, ast.Attribute) and norm(tgt.value) == "self"):
                continue
            a = ann
            if a is None and val is not None:
                for x in ast.walk(val):
                    if isinstance(x, ast.Name) and x.id in pann and pann[x.id] is not None:
                        a = pann[x.id]
                        break
            if a is None:
                continue
            txt = norm(a)
            if is_type_valued(txt) and tgt.attr not in out:
                out[tgt.attr] = txt
    return out


_PURE = {"tuple", "sorted", "list", "set", "frozenset", "dict", "len", "str", "int", "bool", "snapshot_type", "snapshot_types", "snapshot_optional_type", "encode_optional_str"}


def _pure_call(x: ast.AST) -> bool:
    return isinstance(x, ast.Call) and isinstance(x.func, ast.Name) and x.func.id in _PURE


def _walk_skipping(root: ast.AST, skip: set[int]):
    todo = [root]
    while todo:
        n = todo.pop()
        if id(n) in skip:
            continue
        yield n
        todo.extend(ast.iter_child_nodes(n))


def reads_of_param(ix: Index, f: FuncInfo, depth: int = 0, param_index: int = 1, seen=None) -> set[str]:
    """Attributes of the visited object read by a visit method, following same-class helpers the
    parameter is passed to and base-class methods reached through super()."""
    seen = set() if seen is None else seen
    if f.qualname in seen or depth > 4:
        return set()
    seen.add(f.qualname)
    params = [a.arg for a in f.params]
    if len(params) <= param_index:
        return set()
    p = params[param_index]
    out = set()
    aliases = {p}
    # dead stores: `x = <expr>` whose local x is never loaded afterwards is not a use of what <expr> reads
    dead: set[int] = set()
    while True:
        loads: dict[str, int] = {}
        for n in _walk_skipping(f.node, dead):
            if isinstance(n, ast.Name) and isinstance(n.ctx, ast.Load):
                loads[n.id] = loads.get(n.id, 0) + 1
        more = False
        for n in _walk_skipping(f.node, dead):
            if isinstance(n, (ast.Assign, ast.AnnAssign)) and id(n) not in dead:
                tgts = n.targets if isinstance(n, ast.Assign) else [n.target]
                if len(tgts) == 1 and isinstance(tgts[0], ast.Name) and not loads.get(tgts[0].id) and n.value is not None and not any(isinstance(x, (ast.Call, ast.Yield, ast.Await, ast.NamedExpr)) and not _pure_call(x) for x in ast.walk(n.value)):
                    dead.add(id(n))
                    more = True
        if not more:
            break
    live_nodes = list(_walk_skipping(f.node, dead))
    for n in live_nodes:
        if isinstance(n, ast.Assign) and isinstance(n.value, ast.Name) and n.value.id in aliases:
            for t in n.targets:
                if isinstance(t, ast.Name):
                    aliases.add(t.id)
    for n in live_nodes:
        if isinstance(n, ast.Attribute) and isinstance(n.value, ast.Name) and n.value.id in aliases:
            out.add(n.attr)
        if isinstance(n, ast.Call):
            fn = n.func
            argpos = [i for i, a in enumerate(n.args) if isinstance(a, ast.Name) and a.id in aliases]
            if not argpos:
                continue
            target = None
            if isinstance(fn, ast.Attribute) and isinstance(fn.value, ast.Name) and fn.value.id == "self" and f.cls is not None:
                target = f.cls.lookup_method(fn.attr)
            elif isinstance(fn, ast.Attribute) and isinstance(fn.value, ast.Call) and norm(fn.value.func) == "super" and f.cls is not None:
                for b in f.cls.mro()[1:]:
                    if fn.attr in b.methods:
                        target = b.methods[fn.attr]
                        break
            elif isinstance(fn, ast.Name):
                r = ix.resolve_name(f.module, fn.id)
                if r and r[0] == "func":
                    target = r[1]
                    out |= reads_of_param(ix, target, depth + 1, argpos[0], seen)
                    continue
            if target is not None:
                out |= reads_of_param(ix, target, depth + 1, argpos[0] + 1, seen)
    return out


def coverage(ix: Index, visitor: ClassInfo) -> dict[tuple[str, str], tuple[bool, str]]:
    """(TypeClass, field) -> (covered, where) for a visitor class."""
    cells = {}
    synth = ix.classes.get("mypy.type_visitor.SyntheticTypeVisitor")
    synth_only = set(synth.methods) if synth is not None else set()
    tv = ix.classes.get("mypy.type_visitor.TypeVisitor")
    if tv is not None:
        synth_only -= set(tv.methods)
    is_synth_row = synth is not None and visitor.is_subclass_of(synth.qualname)
    for c in type_classes(ix):
        vm = visit_method_name(c)
        if vm is None:
            continue
        if vm in synth_only and not is_synth_row:
            continue  # unanalysed-syntax types exist only before semantic analysis finishes; this visitor never sees them
        m = visitor.lookup_method(vm)
        fields = type_fields(ix, c)
        if m is None:
            for fld in fields:
                cells[(c.name, fld)] = (False, f"{visitor.name} has no {vm}")
            continue
        reads = reads_of_param(ix, m)
        for fld in fields:
            # a property/alias may expose the field under another name (items -> _items)
            ok = fld in reads or fld.lstrip("_") in reads or ("_" + fld) in reads
            cells[(c.name, fld)] = (ok, m.qualname)
    if len(cells) < 25:
        raise AnalysisError(f"component matrix for {visitor.qualname} has only {len(cells)} cells")
    return cells
