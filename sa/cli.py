"""Static extraction of mypy's command-line flag table (mypy/main.py define_options)
and of the documented config-file keys (docs/source/config_file.rst)."""

from __future__ import annotations

import ast
import os
import re

from .index import AnalysisError, Index


def _kw(call: ast.Call, name: str):
    for k in call.keywords:
        if k.arg == name:
            return k.value
    return None


def cli_flags(ix: Index) -> list[dict]:
    f = ix.func("mypy.main.define_options")
    out = []
    for n in ast.walk(f.node):
        if not isinstance(n, ast.Call):
            continue
        fn = n.func
        name = fn.attr if isinstance(fn, ast.Attribute) else getattr(fn, "id", "")
        if name not in ("add_argument", "add_invertible_flag"):
            continue
        flags = [a.value for a in n.args if isinstance(a, ast.Constant) and isinstance(a.value, str)]
        if not flags:
            continue
        # skip the two add_argument calls inside the add_invertible_flag helper itself
        if any(not fl.startswith("-") for fl in flags) and name == "add_argument":
            positional = True
        else:
            positional = False
        dest_e = _kw(n, "dest")
        dest = dest_e.value if isinstance(dest_e, ast.Constant) else None
        if dest_e is not None and dest is None:
            continue  # helper-internal call with a variable dest
        if dest is None:
            longs = [fl for fl in flags if fl.startswith("--")]
            base = longs[0][2:] if longs else flags[0].lstrip("-")
            dest = base.replace("-", "_")
        help_e = _kw(n, "help")
        hidden = help_e is not None and ast.unparse(help_e) == "argparse.SUPPRESS"
        action_e = _kw(n, "action")
        action = action_e.value if isinstance(action_e, ast.Constant) else None
        default_e = _kw(n, "default")
        out.append(
            {
                "flags": flags,
                "dest": dest,
                "hidden": hidden,
                "invertible": name == "add_invertible_flag",
                "action": action,
                "default": ast.unparse(default_e) if default_e is not None else None,
                "lineno": n.lineno,
                "positional": positional,
                "special": dest.startswith("special-opts:"),
            }
        )
    if len(out) < 100:
        raise AnalysisError(f"only {len(out)} CLI flags extracted from define_options")
    return out


def documented_confvals(root: str) -> dict[str, dict]:
    """`.. confval:: name` entries of docs/source/config_file.rst with their :type: and section."""
    p = os.path.join(root, "docs", "source", "config_file.rst")
    if not os.path.exists(p):
        raise AnalysisError("docs/source/config_file.rst vanished")
    out: dict[str, dict] = {}
    cur = None
    with open(p, encoding="utf-8") as f:
        lines = f.read().splitlines()
    for i, line in enumerate(lines):
        m = re.match(r"\.\. confval:: (\S+)", line)
        if m:
            cur = m.group(1)
            out[cur] = {"line": i + 1, "type": None}
            continue
        m = re.match(r"\s+:type: (.*)", line)
        if m and cur and out[cur]["type"] is None:
            out[cur]["type"] = m.group(1).strip()
    if len(out) < 60:
        raise AnalysisError(f"only {len(out)} confvals found in config_file.rst")
    return out
