"""Whole-program call graph (rapid type analysis flavour) over the indexed packages.

Edges come from calls *and* from references to functions/bound methods used as values
(callbacks), attributed to the outermost enclosing function.  A virtual call on a receiver of
static class C targets `D.lookup(m)` for every *instantiated* class D <= C (RTA).  A call
whose receiver type is unknown targets every method of that name (name-based
over-approximation), and is counted in `unresolved`.
"""

from __future__ import annotations

import ast
from collections import deque

from .index import FuncInfo, Index
from .resolve import Resolver, members


class CallGraph:
    def __init__(self, ix: Index, R: Resolver, module_pred=lambda m: True, by_name: bool = True):
        self.ix = ix
        self.R = R
        self.by_name = by_name
        self.module_pred = module_pred
        # per function: list of (kind, payload, lineno)
        self.sites: dict[str, list] = {}
        self.instantiates: dict[str, set[str]] = {}
        self.unresolved_sites: dict[str, list[str]] = {}
        self.n_calls = 0
        self.n_unresolved = 0
        self.dynamic_unresolved: list[str] = []
        for q, f in ix.functions.items():
            if f.parent is not None or not module_pred(f.module):
                continue
            self._scan(f)

    def _scan(self, f: FuncInfo) -> None:
        R = self.R
        env = R.env(f)
        sites = []
        inst = set()
        unres = []
        call_funcs = set()
        nested_envs = {}
        for q2, g in self.ix.functions.items():
            pass
        # walk, tracking nested function environments
        def children(node):
            """Child nodes that are evaluated as values (annotations and pure type arguments skipped)."""
            if isinstance(node, ast.arg):
                return
            if isinstance(node, ast.AnnAssign):
                yield node.target
                if node.value is not None:
                    yield node.value
                return
            if isinstance(node, (ast.FunctionDef, ast.AsyncFunctionDef)):
                yield from node.body
                return
            if isinstance(node, ast.ExceptHandler):
                yield from node.body
                return
            if isinstance(node, ast.Call) and isinstance(node.func, ast.Name):
                if node.func.id in ("isinstance", "issubclass") and len(node.args) == 2:
                    yield node.func
                    yield node.args[0]
                    return
                if node.func.id == "cast" and len(node.args) == 2:
                    yield node.func
                    yield node.args[1]
                    return
            yield from ast.iter_child_nodes(node)

        def walk(node, cur: FuncInfo, cur_env):
            for n in children(node):
                if isinstance(n, (ast.FunctionDef, ast.AsyncFunctionDef)):
                    q = f"{cur.qualname}.<locals>.{n.name}"
                    g = self.ix.functions.get(q)
                    if g is not None:
                        walk(n, g, R.env(g))
                    else:
                        walk(n, cur, cur_env)
                    continue
                if isinstance(n, ast.Lambda):
                    env2 = dict(cur_env)
                    for a in n.args.args:
                        env2.setdefault(a.arg, None)
                    walk(n, cur, env2)
                    continue
                if isinstance(n, (ast.ListComp, ast.SetComp, ast.GeneratorExp, ast.DictComp)):
                    env2 = dict(cur_env)
                    for gen in n.generators:
                        R._bind_target(gen.target, R.elem_of(R.type_of(gen.iter, cur, env2)), env2)
                    visit(n, cur, env2)
                    walk(n, cur, env2)
                    continue
                visit(n, cur, cur_env)
                walk(n, cur, cur_env)

        def visit(n, cur, cur_env):
            if isinstance(n, ast.Call):
                self.n_calls += 1
                call_funcs.add(id(n.func))
                fn = n.func
                if isinstance(fn, ast.Attribute) and isinstance(fn.value, ast.Call) and isinstance(fn.value.func, ast.Name) and fn.value.func.id == "super" and cur.cls is not None:
                    for c in cur.cls.mro()[1:]:
                        if fn.attr in c.methods:
                            sites.append(("direct", c.methods[fn.attr].qualname, n.lineno))
                            break
                    return
                if isinstance(fn, ast.Name) and fn.id == "getattr" and len(n.args) >= 2 and not isinstance(n.args[1], ast.Constant):
                    prefix = _str_prefix(n.args[1], cur.node)
                    rt = R.type_of(n.args[0], cur, cur_env)
                    hit = False
                    for x in members(rt):
                        if x[0] in ("cls", "classref"):
                            sites.append(("dyn", (x[1], prefix), n.lineno))
                            hit = True
                    if not hit:
                        self.dynamic_unresolved.append(f"{cur.qualname}@{n.lineno}: {ast.unparse(n)[:60]}")
                    return
                ft = R.type_of(fn, cur, cur_env)
                if ft is None:
                    if isinstance(fn, ast.Attribute):
                        self.n_unresolved += 1
                        unres.append(f"{ast.unparse(fn)[:50]}@{n.lineno}")
                        if self.by_name:
                            sites.append(("byname", fn.attr, n.lineno))
                    elif isinstance(fn, ast.Name) and (fn.id in cur_env or self.ix.resolve_name(cur.module, fn.id)):
                        self.n_unresolved += 1
                        unres.append(f"{fn.id}@{n.lineno}")
                    return
                for x in members(ft):
                    self._site_of(x, n.lineno, sites, inst, call=True)
            elif isinstance(n, (ast.Attribute, ast.Name)) and id(n) not in call_funcs and isinstance(getattr(n, "ctx", None), ast.Load):
                t = R.type_of(n, cur, cur_env)
                for x in members(t):
                    if x[0] in ("func", "bound"):
                        self._site_of(x, n.lineno, sites, inst, call=False)
                    elif x[0] == "classref" and isinstance(n, ast.Name):
                        # class used as a value (factory): may be instantiated
                        inst.add(x[1])
                        self._site_of(x, n.lineno, sites, inst, call=True)

        walk(f.node, f, env)
        # decorators and defaults evaluate at definition time: ignore
        self.sites[f.qualname] = sites
        self.instantiates[f.qualname] = inst
        if unres:
            self.unresolved_sites[f.qualname] = unres

    def _site_of(self, x, lineno, sites, inst, call: bool) -> None:
        if x[0] == "classref":
            inst.add(x[1])
            ci = self.ix.classes.get(x[1])
            if ci is not None:
                for mname in ("__init__", "__new__", "__post_init__"):
                    m = ci.lookup_method(mname)
                    if m is not None:
                        sites.append(("direct", m.qualname, lineno))
        elif x[0] == "func":
            sites.append(("direct", x[1], lineno))
        elif x[0] == "bound":
            fi = self.ix.functions.get(x[1])
            if fi is None:
                return
            recv = x[2]
            if recv and recv[0] == "cls":
                sites.append(("virtual", (recv[1], fi.name, fi.qualname), lineno))
            else:
                sites.append(("direct", fi.qualname, lineno))
        elif x[0] == "cls":
            ci = self.ix.classes.get(x[1])
            if ci is not None and call:
                m = ci.lookup_method("__call__")
                if m is not None:
                    sites.append(("virtual", (x[1], "__call__", m.qualname), lineno))

    def top(self, q: str) -> str:
        """Outermost enclosing function of a (possibly nested) function."""
        return q.split(".<locals>.")[0]

    def reach(self, roots, cut=(), seed_instantiated=(), rta: bool = True):
        """BFS closure. Returns (parent map: qualname -> (caller, lineno, kind), instantiated set)."""
        cut = set(cut)
        parent: dict[str, tuple] = {}
        inst: set[str] = set(seed_instantiated)
        pending_virtual: list[tuple] = []  # (caller, recvcls, mname, static_q, lineno)
        todo = deque()
        for r in roots:
            if r not in parent and r not in cut:
                parent[r] = (None, 0, "root")
                todo.append(r)

        def add(q, caller, lineno, kind):
            q = self.top(q)
            if q in parent or q in cut or q not in self.sites:
                return
            parent[q] = (caller, lineno, kind)
            todo.append(q)

        def targets_virtual(recvcls, mname, static_q):
            ci = self.ix.classes.get(recvcls)
            out = set()
            if ci is None:
                return {static_q}
            cands = [ci] + ci.all_subclasses()
            for d in cands:
                if rta and d.qualname not in inst:
                    continue
                m = d.lookup_method(mname)
                if m is not None:
                    out.add(m.qualname)
            if not rta or not out:
                out.add(static_q)
            return out

        while True:
            while todo:
                q = todo.popleft()
                new_inst = self.instantiates.get(q, set()) - inst
                inst |= new_inst
                for kind, payload, lineno in self.sites.get(q, ()):
                    if kind == "direct":
                        add(payload, q, lineno, kind)
                    elif kind == "virtual":
                        pending_virtual.append((q, *payload, lineno))
                    elif kind == "dyn":
                        pending_virtual.append((q, "<dyn>", payload, None, lineno))
                    elif kind == "byname":
                        for m in self.ix.by_method_name.get(payload, ()):
                            if not rta or m.cls is None or m.cls.qualname in inst or any(
                                s.qualname in inst for s in m.cls.all_subclasses()
                            ):
                                add(m.qualname, q, lineno, "byname")
                        pending_virtual.append((q, None, payload, None, lineno))
            before = len(parent)
            for caller, recvcls, mname, static_q, lineno in pending_virtual:
                if recvcls == "<dyn>":
                    cname, prefix = mname
                    ci = self.ix.classes.get(cname)
                    for d in ([ci] + ci.all_subclasses()) if ci else []:
                        if rta and d.qualname not in inst and d is not ci:
                            continue
                        for c in d.mro():
                            for mn, m in c.methods.items():
                                if mn.startswith(prefix):
                                    add(m.qualname, caller, lineno, "dyn")
                elif recvcls is None:
                    for m in self.ix.by_method_name.get(mname, ()):
                        if m.cls is None or m.cls.qualname in inst or any(s.qualname in inst for s in m.cls.all_subclasses()):
                            add(m.qualname, caller, lineno, "byname")
                else:
                    for t in targets_virtual(recvcls, mname, static_q):
                        add(t, caller, lineno, "virtual")
            if len(parent) == before and not todo:
                break
        return parent, inst

    def path_to(self, parent: dict, q: str) -> list[str]:
        out = []
        while q is not None:
            caller, lineno, kind = parent[q]
            out.append(f"{q}" + (f"  <-[{kind} @{lineno}]" if caller else "  (root)"))
            q = caller
        return out[::-1]


def _str_prefix(e: ast.expr, func_node) -> str:
    """Literal prefix of a dynamically built attribute name ('visit_' + x, f'visit_{x}', or a local so assigned)."""
    if isinstance(e, ast.BinOp) and isinstance(e.op, ast.Add) and isinstance(e.left, ast.Constant) and isinstance(e.left.value, str):
        return e.left.value
    if isinstance(e, ast.JoinedStr) and e.values and isinstance(e.values[0], ast.Constant):
        return str(e.values[0].value)
    if isinstance(e, ast.Name):
        prefs = set()
        for n in ast.walk(func_node):
            if isinstance(n, ast.Assign) and any(isinstance(t, ast.Name) and t.id == e.id for t in n.targets):
                prefs.add(_str_prefix(n.value, None) if not isinstance(n.value, ast.Name) else "")
        if len(prefs) == 1:
            return prefs.pop()
    return ""
