"""Tiny AST template matcher, so that rules can name a construct without freezing local names.

A template is Python source with metavariables:
    $x    matches one Name (a local variable), consistently across the templates of one query
    $$e   matches any expression, consistently (compared by normalised text)
    $_    matches any expression, no consistency requirement
Everything else must match structurally (node types, operators, constants, attribute and
keyword names); expression contexts are ignored.  A template that parses as a single expression
statement is matched against expressions, otherwise against statements.

    find_all(func.node, ["$cur = options_snapshot($_, $_)", "$cached != $cur"])
returns every consistent binding {"cur": "current_options", "cached": "cached_options"}.
"""

from __future__ import annotations

import ast
import re
from typing import Iterator

_MV = "__mv_"
_MVE = "__mve_"
_ANY = "__mvany__"


def _parse(template: str) -> ast.AST:
    src = template.replace("$$", _MVE).replace("$_", _ANY).replace("$", _MV)
    mod = ast.parse(src)
    if len(mod.body) != 1:
        raise ValueError(f"template must be one statement or expression: {template!r}")
    st = mod.body[0]
    return st.value if isinstance(st, ast.Expr) else st


def _norm(n: ast.AST) -> str:
    return " ".join(ast.unparse(n).split())


def _match(t: ast.AST, n: ast.AST, b: dict[str, str]) -> dict[str, str] | None:
    if isinstance(t, ast.Name):
        if t.id == _ANY:
            return b if isinstance(n, ast.expr) else None
        if t.id.startswith(_MVE):
            if not isinstance(n, ast.expr):
                return None
            k, v = t.id[len(_MVE):], _norm(n)
            if k in b:
                return b if b[k] == v else None
            return {**b, k: v}
        if t.id.startswith(_MV):
            if not isinstance(n, ast.Name):
                return None
            k = t.id[len(_MV):]
            if k in b:
                return b if b[k] == n.id else None
            return {**b, k: n.id}
    if type(t) is not type(n):
        return None
    for fld in t._fields:
        if fld in ("ctx", "type_comment", "kind"):
            continue
        tv, nv = getattr(t, fld, None), getattr(n, fld, None)
        if isinstance(tv, list):
            if not isinstance(nv, list) or len(tv) != len(nv):
                return None
            for a, c in zip(tv, nv):
                if isinstance(a, ast.AST):
                    b2 = _match(a, c, b) if isinstance(c, ast.AST) else None
                    if b2 is None:
                        return None
                    b = b2
                elif a != c:
                    return None
        elif isinstance(tv, ast.AST):
            if not isinstance(nv, ast.AST):
                return None
            b2 = _match(tv, nv, b)
            if b2 is None:
                return None
            b = b2
        elif tv != nv:
            return None
    return b


def matches(root: ast.AST, template: str, binding: dict[str, str] | None = None) -> Iterator[tuple[dict[str, str], ast.AST]]:
    """All (binding, node) where a node under root matches the template, extending `binding`."""
    t = _parse(template)
    want_stmt = isinstance(t, ast.stmt)
    for n in ast.walk(root):
        if want_stmt != isinstance(n, ast.stmt):
            continue
        b = _match(t, n, dict(binding or {}))
        if b is not None:
            yield b, n


def find_all(root: ast.AST, templates: list[str]) -> list[dict[str, str]]:
    """Bindings under which every template matches some node of root."""
    states: list[dict[str, str]] = [{}]
    for tpl in templates:
        nxt = []
        for b in states:
            for b2, _n in matches(root, tpl, b):
                if b2 not in nxt:
                    nxt.append(b2)
        states = nxt
        if not states:
            return []
    return states


def has(root: ast.AST, *templates: str) -> bool:
    return bool(find_all(root, list(templates)))


def metavars(template: str) -> list[str]:
    return re.findall(r"\$\$?(\w+)", template)
