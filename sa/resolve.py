"""Annotation-driven receiver typing and call resolution.

Static type of an expression is one of
  ("cls", qualname)            instance of an indexed class
  ("ext", dotted)              instance of a class outside the index (builtins, stdlib)
  ("set", elem) ("list", elem) ("dict", key, val) ("tuple", (elems...)|None) ("iter", elem)
  ("union", (t, ...))
  ("classref", qualname) ("func", qualname) ("bound", qualname, recv-type) ("module", name)
  None                         unknown
None/Optional is dropped (this is a may-analysis of *which class* a receiver is).
"""

from __future__ import annotations

import ast

from .index import ClassInfo, FuncInfo, Index, Module, walk_no_nested

SET_NAMES = {"set", "Set", "frozenset", "FrozenSet", "AbstractSet", "MutableSet", "KeysView"}
LIST_NAMES = {"list", "List", "Sequence", "MutableSequence", "Collection", "deque", "Deque"}
ITER_NAMES = {"Iterable", "Iterator", "Generator", "ValuesView", "Reversible"}
DICT_NAMES = {"dict", "Dict", "Mapping", "MutableMapping", "defaultdict", "DefaultDict", "OrderedDict", "Counter", "ChainMap"}
TRANSPARENT = {"Final", "ClassVar", "Optional", "Annotated", "Required", "NotRequired", "ReadOnly"}


def mk_union(ts):
    flat = []
    for t in ts:
        if t is None:
            continue
        if t[0] == "union":
            flat.extend(t[1])
        else:
            flat.append(t)
    out = []
    for t in flat:
        if t not in out:
            out.append(t)
    if not out:
        return None
    if len(out) == 1:
        return out[0]
    return ("union", tuple(out))


def members(t):
    if t is None:
        return []
    if t[0] == "union":
        return list(t[1])
    return [t]


class Resolver:
    def __init__(self, ix: Index):
        self.ix = ix
        self._env_cache: dict[str, dict] = {}
        self._ann_cache: dict[tuple, object] = {}
        self._alias_active: set = set()

    # ---- annotations

    def ann(self, m: Module, e: ast.expr | None, cls: ClassInfo | None = None):
        if e is None:
            return None
        key = (m.name, id(e))
        if key not in self._ann_cache:
            self._ann_cache[key] = self._ann(m, e, cls)
        return self._ann_cache[key]

    def _ann(self, m: Module, e: ast.expr, cls):
        if isinstance(e, ast.Constant):
            if isinstance(e.value, str):
                try:
                    return self._ann(m, ast.parse(e.value, mode="eval").body, cls)
                except SyntaxError:
                    return None
            return None
        if isinstance(e, ast.BinOp) and isinstance(e.op, ast.BitOr):
            return mk_union([self._ann(m, e.left, cls), self._ann(m, e.right, cls)])
        if isinstance(e, ast.Subscript):
            base = e.value
            nm = base.attr if isinstance(base, ast.Attribute) else getattr(base, "id", None)
            args = e.slice.elts if isinstance(e.slice, ast.Tuple) else [e.slice]
            if nm in TRANSPARENT:
                return self._ann(m, args[0], cls)
            if nm == "Union":
                return mk_union([self._ann(m, a, cls) for a in args])
            if nm in SET_NAMES:
                return ("set", self._ann(m, args[0], cls))
            if nm in LIST_NAMES:
                return ("list", self._ann(m, args[0], cls))
            if nm in ITER_NAMES:
                return ("iter", self._ann(m, args[0], cls))
            if nm in DICT_NAMES:
                if nm == "Counter":
                    return ("dict", self._ann(m, args[0], cls), ("ext", "int"))
                if len(args) == 2:
                    return ("dict", self._ann(m, args[0], cls), self._ann(m, args[1], cls))
                return ("dict", None, None)
            if nm in ("tuple", "Tuple"):
                if len(args) == 2 and isinstance(args[1], ast.Constant) and args[1].value is Ellipsis:
                    return ("list", self._ann(m, args[0], cls))
                return ("tuple", tuple(self._ann(m, a, cls) for a in args))
            if nm in ("type", "Type"):
                t = self._ann(m, args[0], cls)
                if t and t[0] == "cls":
                    return ("classref", t[1])
                return None
            if nm in ("Callable",):
                return ("callable",)
            return self._ann(m, base, cls)  # generic class: drop args
        if isinstance(e, ast.Name):
            if e.id in SET_NAMES:
                return ("set", None)
            if e.id in LIST_NAMES:
                return ("list", None)
            if e.id in DICT_NAMES:
                return ("dict", None, None)
            if e.id in ("tuple", "Tuple"):
                return ("tuple", None)
            if e.id in ("None",):
                return None
            if e.id == "Self" and cls is not None:
                return ("cls", cls.qualname)
            r = self.ix.resolve_name(m, e.id)
            if r is None:
                if e.id in ("str", "int", "bool", "float", "bytes", "object", "bytearray", "complex"):
                    return ("ext", e.id)
                return None
            return self._ann_from_res(r)
        if isinstance(e, ast.Attribute):
            r = self.ix.resolve_expr_static(m, e)
            if r is None:
                return None
            return self._ann_from_res(r)
        return None

    def _ann_from_res(self, r):
        if r[0] == "class":
            return ("cls", r[1].qualname)
        if r[0] == "external":
            return ("ext", r[1])
        if r[0] == "const":  # type alias
            mm, nm = r[1], r[2]
            ann = mm.annots.get(nm)
            is_alias = ann is not None and "TypeAlias" in ast.unparse(ann)
            v = mm.assigns.get(nm)
            if v is not None and (is_alias or isinstance(v, (ast.Subscript, ast.BinOp))):
                key = (mm.name, nm)
                if key in self._alias_active:
                    return None  # recursive alias
                self._alias_active.add(key)
                try:
                    return self._ann(mm, v, None)
                finally:
                    self._alias_active.discard(key)
        return None

    # ---- function environments

    def env(self, f: FuncInfo) -> dict:
        """name -> type for parameters and locals (flow-insensitive, union of assignments)."""
        if f.qualname in self._env_cache:
            return self._env_cache[f.qualname]
        env: dict[str, object] = {}
        self._env_cache[f.qualname] = env
        if f.parent is not None:
            env.update(self.env(f.parent))
        m = f.module
        a = f.node.args
        params = [*a.posonlyargs, *a.args, *a.kwonlyargs]
        for i, p in enumerate(params):
            t = self.ann(m, p.annotation, f.cls)
            if t is None and i == 0 and f.cls is not None and f.parent is None:
                decos = {getattr(d, "id", None) for d in f.node.decorator_list}
                if "staticmethod" not in decos:
                    t = ("classref", f.cls.qualname) if "classmethod" in decos else ("cls", f.cls.qualname)
            env[p.arg] = t
        if a.vararg:
            env[a.vararg.arg] = ("list", self.ann(m, a.vararg.annotation, f.cls))
        if a.kwarg:
            env[a.kwarg.arg] = ("dict", ("ext", "str"), self.ann(m, a.kwarg.annotation, f.cls))
        # two rounds so that later-defined locals feed earlier uses
        for _ in range(2):
            for n in walk_no_nested(f.node):
                self._bind_stmt(n, f, env)
        return env

    def _bind_stmt(self, n, f: FuncInfo, env) -> None:
        m = f.module
        if isinstance(n, ast.AnnAssign) and isinstance(n.target, ast.Name):
            t = self.ann(m, n.annotation, f.cls)
            if t is not None:
                env[n.target.id] = t
        elif isinstance(n, ast.Assign):
            t = self.type_of(n.value, f, env)
            for tg in n.targets:
                self._bind_target(tg, t, env)
        elif isinstance(n, ast.NamedExpr):
            self._bind_target(n.target, self.type_of(n.value, f, env), env)
        elif isinstance(n, ast.Import):
            for a in n.names:
                if a.asname:
                    env[a.asname] = self._res_to_type(self.ix.resolve_qualified(a.name)) or ("extref", a.name)
                else:
                    top = a.name.split(".")[0]
                    env[top] = self._res_to_type(self.ix.resolve_qualified(top)) or ("extref", top)
        elif isinstance(n, ast.ImportFrom):
            base = n.module or ""
            if n.level:
                pkg = m.name if m.path.endswith("__init__.py") else m.name.rpartition(".")[0]
                parts = pkg.split(".")
                parts = parts[: len(parts) - (n.level - 1)]
                base = ".".join(parts + ([n.module] if n.module else []))
            for a in n.names:
                q = f"{base}.{a.name}"
                env[a.asname or a.name] = self._res_to_type(self.ix.resolve_qualified(q)) or ("extref", q)
        elif isinstance(n, (ast.For, ast.AsyncFor)):
            self._bind_target(n.target, self.elem_of(self.type_of(n.iter, f, env)), env)
        elif isinstance(n, ast.comprehension):
            self._bind_target(n.target, self.elem_of(self.type_of(n.iter, f, env)), env)
        elif isinstance(n, (ast.With, ast.AsyncWith)):
            for it in n.items:
                if it.optional_vars is not None:
                    t = self.type_of(it.context_expr, f, env)
                    if t and t[0] == "cls":
                        ent = self.ix.classes[t[1]].lookup_method("__enter__")
                        if ent is not None:
                            rt = self.ann(ent.module, ent.node.returns, self.ix.classes[t[1]])
                            t = rt or t
                    self._bind_target(it.optional_vars, t, env)
        elif isinstance(n, ast.Call):
            # isinstance(x, C) narrows x somewhere in the function: add C as a may-type
            if isinstance(n.func, ast.Name) and n.func.id == "isinstance" and len(n.args) == 2:
                tgt = n.args[0]
                if isinstance(tgt, ast.NamedExpr):
                    tgt = tgt.target
                if isinstance(tgt, ast.Name):
                    cs = n.args[1].elts if isinstance(n.args[1], ast.Tuple) else [n.args[1]]
                    ts = [self.ann(m, c, f.cls) for c in cs]
                    cur = env.get(tgt.id)
                    env[tgt.id] = mk_union([cur] + ts)

    def _res_to_type(self, r):
        if r is None:
            return None
        if r[0] == "class":
            return ("classref", r[1].qualname)
        if r[0] == "func":
            return ("func", r[1].qualname)
        if r[0] == "module":
            return ("module", r[1].name)
        if r[0] == "const":
            return self.global_type(r[1], r[2])
        if r[0] == "external":
            return ("extref", r[1])
        return None

    def _bind_target(self, tg, t, env) -> None:
        if isinstance(tg, ast.Name):
            if t is None:
                env.setdefault(tg.id, None)
                return
            cur = env.get(tg.id)
            env[tg.id] = mk_union([cur, t]) if cur is not None else t
        elif isinstance(tg, (ast.Tuple, ast.List)):
            elts = tg.elts
            if t and t[0] == "tuple" and t[1] is not None and len(t[1]) == len(elts):
                for e, et in zip(elts, t[1]):
                    self._bind_target(e, et, env)
            else:
                et = self.elem_of(t) if t and t[0] in ("list", "set", "iter") else None
                for e in elts:
                    self._bind_target(e.value if isinstance(e, ast.Starred) else e, et, env)

    # ---- expression typing

    def elem_of(self, t):
        if t is None:
            return None
        if t[0] in ("set", "list", "iter"):
            return t[1]
        if t[0] == "dict":
            return t[1]
        if t[0] == "tuple":
            return mk_union(t[1]) if t[1] else None
        if t[0] == "union":
            return mk_union([self.elem_of(x) for x in t[1]])
        if t[0] == "dictitems":
            return ("tuple", (t[1], t[2]))
        if t[0] == "cls":
            ci = self.ix.classes.get(t[1])
            if ci is not None:
                it = ci.lookup_method("__iter__")
                if it is not None:
                    rt = self.ann(it.module, it.node.returns, ci)
                    if rt and rt[0] in ("iter", "list", "set"):
                        return rt[1]
                for b in ci.base_exprs:  # class C(dict[str, X]) / list[...]
                    bt = self.ann(ci.module, b, ci)
                    if bt and bt[0] in ("dict", "list", "set"):
                        return self.elem_of(bt)
        return None

    def type_of(self, e: ast.expr, f: FuncInfo, env: dict | None = None):
        if env is None:
            env = self.env(f)
        try:
            return self._type_of(e, f, env, 0)
        except RecursionError:
            return None

    def _type_of(self, e, f: FuncInfo, env, d):
        if d > 25:
            return None
        m = f.module
        T = lambda x: self._type_of(x, f, env, d + 1)  # noqa: E731
        if isinstance(e, ast.Name):
            if e.id in env:
                return env[e.id]
            r = self.ix.resolve_name(m, e.id)
            if r is None:
                return None
            if r[0] == "class":
                return ("classref", r[1].qualname)
            if r[0] == "func":
                return ("func", r[1].qualname)
            if r[0] == "module":
                return ("module", r[1].name)
            if r[0] == "external":
                return ("extref", r[1])
            if r[0] == "const":
                return self.global_type(r[1], r[2])
            return None
        if isinstance(e, ast.Attribute):
            bt = T(e.value)
            return mk_union([self.attr_type(b, e.attr) for b in members(bt)])
        if isinstance(e, ast.Call):
            return self._call_type(e, f, env, d)
        if isinstance(e, ast.Subscript):
            bt = T(e.value)
            outs = []
            for b in members(bt):
                if b[0] == "dict":
                    outs.append(b[2])
                elif b[0] == "list":
                    outs.append(b if isinstance(e.slice, ast.Slice) else b[1])
                elif b[0] == "tuple" and b[1]:
                    if isinstance(e.slice, ast.Constant) and isinstance(e.slice.value, int) and -len(b[1]) <= e.slice.value < len(b[1]):
                        outs.append(b[1][e.slice.value])
                    else:
                        outs.append(mk_union(b[1]))
                elif b[0] == "cls":
                    ci = self.ix.classes.get(b[1])
                    gi = ci.lookup_method("__getitem__") if ci else None
                    if gi is not None:
                        outs.append(self.ann(gi.module, gi.node.returns, ci))
                    elif ci is not None:
                        for bb in ci.base_exprs:
                            bt2 = self.ann(ci.module, bb, ci)
                            if bt2 and bt2[0] == "dict":
                                outs.append(bt2[2])
            return mk_union(outs)
        if isinstance(e, (ast.Set, ast.SetComp)):
            el = None
            if isinstance(e, ast.Set) and e.elts:
                el = T(e.elts[0])
            elif isinstance(e, ast.SetComp):
                el = self._comp_elem(e, e.elt, f, env, d)
            return ("set", el)
        if isinstance(e, (ast.List, ast.ListComp)):
            el = None
            if isinstance(e, ast.List) and e.elts:
                el = T(e.elts[0])
            elif isinstance(e, ast.ListComp):
                el = self._comp_elem(e, e.elt, f, env, d)
            return ("list", el)
        if isinstance(e, ast.GeneratorExp):
            return ("iter", self._comp_elem(e, e.elt, f, env, d))
        if isinstance(e, (ast.Dict, ast.DictComp)):
            if isinstance(e, ast.Dict) and e.keys and e.keys[0] is not None:
                return ("dict", T(e.keys[0]), T(e.values[0]))
            if isinstance(e, ast.DictComp):
                return ("dict", self._comp_elem(e, e.key, f, env, d), self._comp_elem(e, e.value, f, env, d))
            return ("dict", None, None)
        if isinstance(e, ast.Tuple):
            return ("tuple", tuple(T(x) for x in e.elts))
        if isinstance(e, ast.IfExp):
            return mk_union([T(e.body), T(e.orelse)])
        if isinstance(e, ast.BoolOp):
            return mk_union([T(v) for v in e.values])
        if isinstance(e, ast.BinOp):
            l, r = T(e.left), T(e.right)
            if isinstance(e.op, (ast.BitOr, ast.BitAnd, ast.Sub, ast.BitXor)):
                for x in members(l) + members(r):
                    if x[0] == "set":
                        return x
                    if x[0] == "dictkeys":
                        return ("set", x[1])
                return None
            if isinstance(e.op, ast.Add):
                for x in members(l) + members(r):
                    if x[0] in ("list", "tuple"):
                        return x
                return l
            if isinstance(e.op, ast.Mod) and l == ("ext", "str"):
                return l
            return None
        if isinstance(e, ast.NamedExpr):
            return T(e.value)
        if isinstance(e, ast.Constant):
            if e.value is None:
                return None
            return ("ext", type(e.value).__name__)
        if isinstance(e, ast.JoinedStr):
            return ("ext", "str")
        if isinstance(e, ast.Starred):
            return T(e.value)
        if isinstance(e, ast.Await):
            return T(e.value)
        return None

    def _comp_elem(self, comp, elt, f, env, d):
        env2 = dict(env)
        for g in comp.generators:
            self._bind_target(g.target, self.elem_of(self._type_of(g.iter, f, env2, d + 1)), env2)
        return self._type_of(elt, f, env2, d + 1)

    def global_type(self, m: Module, name: str):
        if name in m.annots:
            t = self.ann(m, m.annots[name])
            if t is not None:
                return t
        v = m.assigns.get(name)
        if v is None:
            return None
        fake = FuncInfo("<module>", m.name + ".<module>", ast.FunctionDef(name="<module>", args=ast.arguments(posonlyargs=[], args=[], kwonlyargs=[], kw_defaults=[], defaults=[], vararg=None, kwarg=None), body=[], decorator_list=[]), m)
        return self._type_of(v, fake, {}, 0)

    def attr_type(self, b, attr: str):
        if b is None:
            return None
        k = b[0]
        if k == "cls":
            ci = self.ix.classes.get(b[1])
            if ci is None:
                return None
            for c in ci.mro():
                if attr in c.methods:
                    fn = c.methods[attr]
                    if fn.is_property:
                        return self.ann(fn.module, fn.node.returns, c)
                    return ("bound", fn.qualname, b)
                if attr in c.class_annots:
                    t = self.ann(c.module, c.class_annots[attr], c)
                    if t is not None:
                        return t
                sa = c.self_attrs()
                if attr in sa:
                    a, val, fn = sa[attr]
                    if a is not None:
                        t = self.ann(c.module, a, c)
                        if t is not None:
                            return t
                    if val is not None:
                        t = self.type_of(val, fn)
                        if t is not None:
                            return t
                if attr in c.class_assigns:
                    return self.global_type_expr(c.module, c.class_assigns[attr])
            return None
        if k == "classref":
            ci = self.ix.classes.get(b[1])
            if ci is None:
                return None
            fn = ci.lookup_method(attr)
            if fn is not None:
                return ("bound", fn.qualname, b)
            q = f"{ci.qualname}.{attr}"
            if q in self.ix.classes:
                return ("classref", q)
            for c in ci.mro():
                if attr in c.class_annots:
                    return self.ann(c.module, c.class_annots[attr], c)
                if attr in c.class_assigns:
                    return self.global_type_expr(c.module, c.class_assigns[attr])
            return None
        if k == "module":
            mm = self.ix.modules.get(b[1])
            if mm is None:
                return None
            r = self.ix.resolve_qualified(f"{mm.name}.{attr}") or self.ix.resolve_name(mm, attr)
            if r is None:
                return None
            if r[0] == "class":
                return ("classref", r[1].qualname)
            if r[0] == "func":
                return ("func", r[1].qualname)
            if r[0] == "module":
                return ("module", r[1].name)
            if r[0] == "const":
                return self.global_type(r[1], r[2])
            if r[0] == "external":
                return ("extref", r[1])
            return None
        if k == "extref":
            return ("extref", f"{b[1]}.{attr}")
        if k in ("set", "list", "dict", "tuple", "iter", "ext", "dictkeys", "dictitems"):
            return ("builtin-method", b, attr)
        return None

    def global_type_expr(self, m: Module, v: ast.expr):
        fake = FuncInfo("<module>", m.name + ".<module>", ast.FunctionDef(name="<module>", args=ast.arguments(posonlyargs=[], args=[], kwonlyargs=[], kw_defaults=[], defaults=[], vararg=None, kwarg=None), body=[], decorator_list=[]), m)
        return self._type_of(v, fake, {}, 0)

    def _call_type(self, e: ast.Call, f: FuncInfo, env, d):
        T = lambda x: self._type_of(x, f, env, d + 1)  # noqa: E731
        fn = e.func
        if isinstance(fn, ast.Name) and fn.id not in env and self.ix.resolve_name(f.module, fn.id) is None:
            nm = fn.id
            a0 = T(e.args[0]) if e.args else None
            if nm in ("set", "frozenset"):
                return ("set", self.elem_of(a0))
            if nm in ("list", "sorted", "reversed"):
                return ("list", self.elem_of(a0))
            if nm == "tuple":
                return ("list", self.elem_of(a0))
            if nm == "dict":
                return a0 if a0 and a0[0] == "dict" else ("dict", None, None)
            if nm in ("iter",):
                return ("iter", self.elem_of(a0))
            if nm in ("next",):
                return self.elem_of(a0)
            if nm in ("enumerate",):
                return ("iter", ("tuple", (("ext", "int"), self.elem_of(a0))))
            if nm == "zip":
                return ("iter", ("tuple", tuple(self.elem_of(T(a)) for a in e.args)))
            if nm in ("str", "repr", "int", "len", "bool", "float", "bytes", "hash", "id"):
                return ("ext", {"repr": "str", "len": "int", "hash": "int", "id": "int"}.get(nm, nm))
            if nm in ("min", "max"):
                return self.elem_of(a0) if len(e.args) == 1 else a0
            if nm == "cast" and len(e.args) == 2:
                return self.ann(f.module, e.args[0], f.cls)
            if nm in ("filter",):
                return ("iter", self.elem_of(T(e.args[1])) if len(e.args) > 1 else None)
            if nm == "defaultdict":
                return ("dict", None, None)
            if nm == "super":
                if f.cls is not None and len(f.cls.mro()) > 1:
                    return ("super", f.cls.qualname)
                return None
            return None
        ft = T(fn)
        outs = []
        for x in members(ft):
            outs.append(self._apply(x, e, f, env, d))
        if isinstance(fn, ast.Name) and fn.id == "cast" and len(e.args) == 2:
            return self.ann(f.module, e.args[0], f.cls)
        return mk_union(outs)

    def _apply(self, x, e: ast.Call, f, env, d):
        T = lambda y: self._type_of(y, f, env, d + 1)  # noqa: E731
        k = x[0]
        if k == "classref":
            return ("cls", x[1])
        if k in ("func", "bound"):
            fi = self.ix.functions.get(x[1])
            if fi is None:
                return None
            ci = fi.cls
            if k == "bound" and x[2] and x[2][0] in ("cls", "classref") and x[2][1] in self.ix.classes:
                ci = self.ix.classes[x[2][1]]
            if fi.name == "__init__":
                return None
            return self.ann(fi.module, fi.node.returns, ci)
        if k == "extref":
            dotted = x[1]
            tail = dotted.rpartition(".")[2]
            if tail in ("defaultdict", "OrderedDict", "Counter"):
                return ("dict", None, None)
            if tail in ("deque",):
                return ("list", None)
            if tail in ("cast",) and len(e.args) == 2:
                return self.ann(f.module, e.args[0], f.cls)
            if dotted in ("os.listdir",):
                return ("list", ("ext", "str"))
            return ("ext", dotted)
        if k == "builtin-method":
            b, attr = x[1], x[2]
            if b[0] == "dict":
                if attr == "keys":
                    return ("dictkeys", b[1])
                if attr == "values":
                    return ("iter", b[2])
                if attr == "items":
                    return ("dictitems", b[1], b[2])
                if attr in ("get", "pop", "setdefault"):
                    return b[2]
                if attr == "copy":
                    return b
            if b[0] == "set":
                if attr in ("copy", "union", "intersection", "difference", "symmetric_difference"):
                    return b
                if attr == "pop":
                    return b[1]
            if b[0] == "list":
                if attr == "copy":
                    return b
                if attr == "pop":
                    return b[1]
            if b[0] == "dictkeys":
                return None
            if b[0] == "ext" and b[1] == "str":
                if attr in ("split", "splitlines", "rsplit"):
                    return ("list", ("ext", "str"))
                if attr in ("join", "strip", "format", "lower", "upper", "replace", "lstrip", "rstrip"):
                    return ("ext", "str")
            return None
        if k == "super":
            return None
        return None

    # ---- call resolution

    def callees(self, e: ast.Call, f: FuncInfo, env=None, cha: bool = True, by_name: bool = False):
        """Resolved callee FuncInfos of a call; `resolved` False when the receiver is unknown.
        cha: include overrides in subclasses of the receiver's static class.
        by_name: for an unknown receiver, every method of that name in the index."""
        if env is None:
            env = self.env(f)
        fn = e.func
        out: list[FuncInfo] = []
        resolved = True
        if isinstance(fn, ast.Attribute) and isinstance(fn.value, ast.Call) and isinstance(fn.value.func, ast.Name) and fn.value.func.id == "super" and f.cls is not None:
            for c in f.cls.mro()[1:]:
                if fn.attr in c.methods:
                    return [c.methods[fn.attr]], True
            return [], True
        ft = self.type_of(fn, f, env)
        if ft is None:
            resolved = False
            if isinstance(fn, ast.Name):
                # builtin or unknown local callable
                if fn.id not in env and self.ix.resolve_name(f.module, fn.id) is None:
                    return [], True  # builtin
            if by_name and isinstance(fn, ast.Attribute):
                out.extend(self.ix.by_method_name.get(fn.attr, []))
            return out, resolved
        for x in members(ft):
            if x[0] == "classref":
                ci = self.ix.classes.get(x[1])
                if ci is not None:
                    init = ci.lookup_method("__init__")
                    if init is not None:
                        out.append(init)
                    new = ci.lookup_method("__new__")
                    if new is not None:
                        out.append(new)
            elif x[0] == "func":
                fi = self.ix.functions.get(x[1])
                if fi is not None:
                    out.append(fi)
            elif x[0] == "bound":
                fi = self.ix.functions.get(x[1])
                if fi is None:
                    continue
                out.append(fi)
                if cha and x[2] and x[2][0] in ("cls", "classref"):
                    rc = self.ix.classes.get(x[2][1])
                    if rc is not None:
                        for sc in rc.all_subclasses():
                            if fi.name in sc.methods and sc.methods[fi.name] not in out:
                                out.append(sc.methods[fi.name])
            elif x[0] == "cls":
                ci = self.ix.classes.get(x[1])
                if ci is not None:
                    c = ci.lookup_method("__call__")
                    if c is not None:
                        out.append(c)
            elif x[0] in ("extref", "ext", "builtin-method", "callable"):
                pass
        return out, resolved
