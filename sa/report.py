"""Verdict plumbing: rule instances, violations, known findings, tables, evidence, exit codes.

Exit 0: every rule instance held (KNOWN-FINDING lines for listed findings).
Exit 1: `VIOLATION property=<id> replay=<path>` for each unlisted violation.
Exit 2: ANALYSIS-ERROR (anchor vanished, unrecognised idiom, instance floor, canary silent...).
"""

from __future__ import annotations

import json
import os
import sys
import time
import traceback

from .index import AnalysisError

VERIF = os.path.dirname(os.path.dirname(os.path.abspath(__file__)))
EVIDENCE_DIR = os.environ.get("VERIF_EVIDENCE_DIR") or os.path.join(VERIF, "evidence")
TABLES_DIR = os.path.join(VERIF, "tables")
KNOWN_FINDINGS = os.path.join(VERIF, "known_findings.json")


def load_table(rule: str) -> dict[str, dict]:
    """Triage table for an inferred rule: key -> {verdict: ok|finding, reason}. One construct per key."""
    p = os.path.join(TABLES_DIR, f"{rule}.json")
    if not os.path.exists(p):
        return {}
    with open(p) as f:
        data = json.load(f)
    out = {}
    for e in data["entries"]:
        if e["key"] in out:
            raise AnalysisError(f"duplicate table key in {rule}: {e['key']}")
        if not e.get("reason"):
            raise AnalysisError(f"table entry without reason in {rule}: {e['key']}")
        out[e["key"]] = e
    return out


def load_known_findings() -> list[dict]:
    if not os.path.exists(KNOWN_FINDINGS):
        return []
    with open(KNOWN_FINDINGS) as f:
        return json.load(f)["findings"]


class Rule:
    """One rule of a property: its instances and their verdicts."""

    def __init__(self, check: "Check", rid: str, decides: str, floor: int = 1):
        self.check = check
        self.rid = rid
        self.decides = decides
        self.floor = floor
        self.instances: list[dict] = []
        self.table = load_table(rid)
        self.table_used: set[str] = set()

    def ok(self, key: str, where: str = "", note: str = "") -> None:
        self.instances.append({"rule": self.rid, "key": key, "where": where, "verdict": "holds", "note": note})

    def info(self, key: str, where: str = "", note: str = "") -> None:
        self.instances.append({"rule": self.rid, "key": key, "where": where, "verdict": "info", "note": note})

    def violation(self, key: str, where: str, reason: str, witness=None) -> None:
        """A deviant construct. Table `ok` entries (one construct each, with a reason) exempt it;
        known findings turn it into a KNOWN-FINDING line; anything else is a VIOLATION."""
        inst = {"rule": self.rid, "key": key, "where": where, "reason": reason}
        if witness:
            inst["witness"] = witness
        t = self.table.get(key)
        if t is not None:
            self.table_used.add(key)
            if t["verdict"] == "ok":
                inst["verdict"] = "tabled-ok"
                inst["note"] = t["reason"]
                self.instances.append(inst)
                return
        for kf in self.check.known:
            if kf["property"] == self.check.pid and kf["rule"] == self.rid and kf["key"] == key:
                if str(kf.get("status", "known")).startswith("fixed"):
                    break  # a fixed entry suppresses nothing
                inst["verdict"] = "known-finding"
                inst["what_fails"] = kf["what_fails"]
                self.instances.append(inst)
                self.check.known_hit.append(inst)
                return
        inst["verdict"] = "VIOLATION"
        self.instances.append(inst)
        self.check.violations.append(inst)

    def error(self, msg: str) -> None:
        raise AnalysisError(f"{self.rid}: {msg}")

    def count(self, verdicts=("holds", "tabled-ok", "known-finding", "VIOLATION")) -> int:
        return sum(1 for i in self.instances if i["verdict"] in verdicts)

    def finish(self) -> None:
        n = self.count()
        if n < self.floor and not self.count(("VIOLATION",)):  # a rule that reports is not vacuous
            raise AnalysisError(
                f"{self.rid}: matched {n} instances, below the floor {self.floor} confirmed by hand "
                "(a rule matching too few sites passes vacuously)"
            )


class Check:
    def __init__(self, pid: str, tier: str):
        self.pid = pid
        self.tier = tier
        self.seed = int(os.environ.get("VERIF_SEED", "0") or 0)
        self.rules: list[Rule] = []
        self.violations: list[dict] = []
        self.known_hit: list[dict] = []
        self.known = load_known_findings()
        self.extra: dict = {}
        self.assumptions: list[str] = [
            "CPython evaluation order and the documented semantics of the ast module",
            "the analysed files are the ones the build imports (mypy/, mypyc/ minus tests, typeshed)",
        ]
        self.trusted: list[str] = []
        self.t0 = time.time()
        self.canaries: list[dict] = []

    def rule(self, rid: str, decides: str, floor: int = 1) -> Rule:
        r = Rule(self, rid, decides, floor)
        self.rules.append(r)
        return r

    def canary(self, rid: str, name: str, fired: bool) -> None:
        self.canaries.append({"rule": rid, "canary": name, "fired": fired})
        if not fired:
            raise AnalysisError(f"{rid}: canary {name} was not flagged — the rule has gone blind")

    # ---- output

    def evidence(self, status: str, error: str | None = None) -> dict:
        insts = [i for r in self.rules for i in r.instances]
        judged = [i for i in insts if i["verdict"] != "info"]
        distinct = {(i["rule"], i["key"]) for i in judged}
        samples = []
        per_rule_seen: dict[str, int] = {}
        for i in insts:
            k = per_rule_seen.get(i["rule"], 0)
            if k < 3 or i["verdict"] in ("VIOLATION", "known-finding"):
                samples.append(i)
                per_rule_seen[i["rule"]] = k + 1
        cov = {
            "explanation": " ".join(f"[{r.rid}] {r.decides}" for r in self.rules)
            or "no rule ran",
            "evaluations": len(judged),
            "distinct_nontrivial": len(distinct),
            "rule": "one evaluation = one rule instance (a construct of /repo's current tree matched by a "
            "rule template: a gate, a call site, a serializer pair, a table entry ...); distinct = distinct "
            "(rule, normalised construct key); informational rows are not counted",
            "samples": samples[:60],
            "obligations": len(judged),
            "discharged": sum(1 for i in judged if i["verdict"] in ("holds", "tabled-ok")),
            "checker_cmd": f"/venv/bin/python -m sa.check {self.pid} --tier {self.tier}",
            "trusted_base": self.trusted,
            "rules": [
                {
                    "rule": r.rid,
                    "decides": r.decides,
                    "instances": r.count(),
                    "instance_floor": r.floor,
                    "holds": r.count(("holds",)),
                    "tabled_ok": r.count(("tabled-ok",)),
                    "known_findings": r.count(("known-finding",)),
                    "violations": r.count(("VIOLATION",)),
                    "table_entries_used": len(r.table_used),
                    "table_entries_unused": sorted(set(r.table) - r.table_used),
                }
                for r in self.rules
            ],
            "canaries": self.canaries,
            "known_findings_hit": [f"{i['rule']} {i['key']}" for i in self.known_hit],
            "status": status,
            "exhaustive": False,
        }
        cov.update(self.extra)
        if error:
            cov["analysis_error"] = error
        return {
            "property_id": self.pid,
            "tier": self.tier,
            "seed": self.seed,
            "level": "other",
            "coverage": cov,
            "assumptions": self.assumptions,
            "wall_s": round(time.time() - self.t0, 3),
            "violations": len(self.violations),
        }

    def write_evidence(self, status: str, error: str | None = None) -> None:
        os.makedirs(EVIDENCE_DIR, exist_ok=True)
        ev = self.evidence(status, error)
        tmp = os.path.join(EVIDENCE_DIR, f".{self.pid}.json.tmp")
        with open(tmp, "w") as f:
            json.dump(ev, f, indent=1, sort_keys=True, default=str)
            f.write("\n")
        os.replace(tmp, os.path.join(EVIDENCE_DIR, f"{self.pid}.json"))

    def conclude(self) -> int:
        for r in self.rules:
            try:
                r.finish()
            except AnalysisError as e:
                # a floor that is missed because another rule of the same property already reports the
                # construct as a violation must not turn the report into "analysis broken"
                if not self.violations:
                    raise
                print(f"NOTE: {e} (not fatal: the property already has a violation)")
        for r in self.rules:
            print(
                f"{r.rid}: {r.count()} instances (floor {r.floor}); holds={r.count(('holds',))} "
                f"tabled-ok={r.count(('tabled-ok',))} known={r.count(('known-finding',))} "
                f"violations={r.count(('VIOLATION',))} — {r.decides}"
            )
        for i in self.known_hit:
            print(f"KNOWN-FINDING: property={self.pid} {i['rule']} {i['key']} at {i['where']}: {i['what_fails']}")
        if self.violations:
            vdir = os.path.join(EVIDENCE_DIR, "violations")
            os.makedirs(vdir, exist_ok=True)
            for k, v in enumerate(self.violations):
                p = os.path.join(vdir, f"{self.pid}-{k}.json")
                with open(p, "w") as f:
                    json.dump(v, f, indent=1, default=str)
                print(f"  {v['rule']} {v['where']}: {v['key']}: {v['reason']}")
                print(f"VIOLATION property={self.pid} replay={p}")
            self.write_evidence("violations")
            return 1
        self.write_evidence("held")
        return 0


def thorough_selfcheck(chk: Check) -> None:
    """Thorough tier: run the property's seeded variants and kept seeded changes on scratch copies.
    Recorded, not judged: a variant that is not reported is a weakness of the analyser, printed as
    SELFTEST-WARN and stored in the evidence; the verdict depends on /repo's tree only."""
    try:
        from .selftest import for_property
        res = for_property(chk.pid)
    except Exception as e:  # noqa: BLE001
        print(f"SELFTEST-WARN property={chk.pid} self-check could not run: {type(e).__name__}: {e}")
        chk.extra["seeded_variants_error"] = f"{type(e).__name__}: {e}"
        return
    chk.extra.update(res)
    print(f"self-check: {res['seeded_variants_fired']}/{res['seeded_variants_run']} seeded variants reported" + (f", {len(res['seeded_variants_skipped'])} skipped (anchor moved)" if res["seeded_variants_skipped"] else ""))
    for n in res["seeded_variants_not_fired"]:
        print(f"SELFTEST-WARN property={chk.pid} variant not reported: {n}")
    try:
        from .alpha import for_property as alpha_for
        ar = alpha_for(chk.pid)
        chk.extra.update(ar)
        print(f"self-check: {ar['alpha_renamed_functions_silent']}/{ar['alpha_renamed_functions_run']} anchored functions stay silent with all their locals renamed")
        for n in ar["alpha_renamed_functions_not_silent"]:
            print(f"SELFTEST-WARN property={chk.pid} renaming locals changed the outcome: {n}")
    except Exception as e:  # noqa: BLE001
        print(f"SELFTEST-WARN property={chk.pid} alpha sweep could not run: {type(e).__name__}: {e}")


def run_check(pid: str, tier: str, body, replay: dict | None = None) -> int:
    """Run `body(check)`; convert every analyser failure into exit 2, never into a verdict.
    With `replay` (a stored violation record) the exit status answers for that instance only."""
    chk = Check(pid, tier)
    try:
        body(chk)
        if tier == "thorough":
            thorough_selfcheck(chk)
        rc = chk.conclude()
        if replay is not None:
            same = [v for v in chk.violations if v.get("rule") == replay.get("rule") and v.get("key") == replay.get("key")]
            if same:
                print(f"REPLAY: {replay.get('rule')} `{replay.get('key')}` is still violated at {same[0].get('where')}")
                return 1
            print(f"REPLAY: {replay.get('rule')} `{replay.get('key')}` is not violated on the current tree" + (f" ({len(chk.violations)} other violation(s) reported above)" if chk.violations else ""))
            return 0
        return rc
    except AnalysisError as e:
        print(f"ANALYSIS-ERROR property={pid}: {e}")
        chk.write_evidence("analysis-error", str(e))
        return 2
    except Exception as e:  # noqa: BLE001
        traceback.print_exc(file=sys.stdout)
        print(f"ANALYSIS-ERROR property={pid}: internal exception {type(e).__name__}: {e}")
        try:
            chk.write_evidence("analysis-error", f"{type(e).__name__}: {e}")
        except Exception:  # noqa: BLE001
            pass
        return 2
