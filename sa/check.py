"""Entry point: /venv/bin/python -m sa.check <ID> [--tier quick|thorough] [--replay FILE]"""

from __future__ import annotations

import argparse
import importlib
import json
import os
import sys

from .report import run_check


def main(argv=None) -> int:
    ap = argparse.ArgumentParser()
    ap.add_argument("pid")
    ap.add_argument("--tier", default=os.environ.get("VERIF_TIER") or "quick", choices=["quick", "thorough"])
    ap.add_argument("--replay", default=None, help="re-evaluate and show the rule instance stored in a replay file")
    args = ap.parse_args(argv)
    pid = args.pid.upper()
    try:
        mod = importlib.import_module(f"sa.rules.{pid.lower()}")
    except ImportError as e:
        print(f"ANALYSIS-ERROR property={pid}: no rule pack ({e})")
        return 2
    want = None
    if args.replay:
        with open(args.replay) as f:
            want = json.load(f)
        print(f"replaying {want.get('rule')} {want.get('key')} (recorded at {want.get('where')})")
    return run_check(pid, args.tier, lambda chk: mod.run(chk), replay=want)


if __name__ == "__main__":
    sys.exit(main())
