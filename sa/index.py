"""Program index over /repo's mypy/ and mypyc/ packages (pure `ast`).

A fact that cannot be established is *missing*, never guessed: lookups that a rule
depends on raise AnalysisError (reported as ANALYSIS-ERROR, exit 2).
"""

from __future__ import annotations

import ast
import os
from typing import Iterator

REPO = os.environ.get("VERIF_REPO", "/repo")

EXCLUDE_DIRS = ("typeshed", "test", "test-data", "lib-rt", "__pycache__", "xml")


class AnalysisError(Exception):
    """The analyser could not establish a fact a rule needs (never a verdict on mypy)."""


class FuncInfo:
    __slots__ = ("name", "qualname", "node", "module", "cls", "parent")

    def __init__(self, name, qualname, node, module, cls=None, parent=None):
        self.name = name
        self.qualname = qualname
        self.node = node
        self.module = module
        self.cls = cls
        self.parent = parent

    def __repr__(self):
        return f"<func {self.qualname}>"

    @property
    def params(self) -> list[ast.arg]:
        a = self.node.args
        return [*a.posonlyargs, *a.args, *a.kwonlyargs] + ([a.vararg] if a.vararg else []) + (
            [a.kwarg] if a.kwarg else []
        )

    @property
    def is_property(self) -> bool:
        return any(
            (isinstance(d, ast.Name) and d.id in ("property", "cached_property"))
            or (isinstance(d, ast.Attribute) and d.attr in ("setter", "cached_property"))
            for d in self.node.decorator_list
        )

    def loc(self, node=None) -> str:
        n = node if node is not None else self.node
        return f"{self.module.relpath}:{getattr(n, 'lineno', 0)}"


class ClassInfo:
    def __init__(self, name, qualname, node, module):
        self.name = name
        self.qualname = qualname
        self.node = node
        self.module = module
        self.base_exprs: list[ast.expr] = list(node.bases)
        self.bases: list[ClassInfo] = []
        self.unresolved_bases: list[str] = []
        self.methods: dict[str, FuncInfo] = {}
        self.class_annots: dict[str, ast.expr] = {}
        self.class_assigns: dict[str, ast.expr] = {}
        self.subclasses: list[ClassInfo] = []
        self._mro: list[ClassInfo] | None = None
        self._self_attrs = None

    def __repr__(self):
        return f"<class {self.qualname}>"

    def mro(self) -> list["ClassInfo"]:
        if self._mro is None:
            seqs = [b.mro() for b in self.bases] + [list(self.bases)]
            res = [self]
            seqs = [list(s) for s in seqs if s]
            while seqs:
                for s in seqs:
                    cand = s[0]
                    if not any(cand in t[1:] for t in seqs):
                        break
                else:  # inconsistent; fall back to depth-first
                    cand = seqs[0][0]
                res.append(cand)
                seqs = [[c for c in s if c is not cand] for s in seqs]
                seqs = [s for s in seqs if s]
            self._mro = res
        return self._mro

    def lookup_method(self, name: str) -> FuncInfo | None:
        for c in self.mro():
            if name in c.methods:
                return c.methods[name]
        return None

    def lookup_annot(self, name: str):
        """Annotation expr of attribute `name` (class-level or `self.x: T` / `self.x = param`)."""
        for c in self.mro():
            if name in c.class_annots:
                return c.class_annots[name], c
            sa = c.self_attrs()
            if name in sa and sa[name][0] is not None:
                return sa[name][0], c
        return None, None

    def all_subclasses(self) -> list["ClassInfo"]:
        out, seen, todo = [], set(), list(self.subclasses)
        while todo:
            c = todo.pop()
            if c.qualname in seen:
                continue
            seen.add(c.qualname)
            out.append(c)
            todo.extend(c.subclasses)
        return out

    def is_subclass_of(self, qual: str) -> bool:
        return any(c.qualname == qual for c in self.mro())

    def self_attrs(self) -> dict[str, tuple]:
        """Attributes assigned on self in any method: name -> (annotation expr|None, value expr, method)."""
        if self._self_attrs is None:
            res: dict[str, tuple] = {}
            order = sorted(self.methods.values(), key=lambda f: (f.name != "__init__", f.node.lineno))
            for f in order:
                if not f.node.args.args:
                    continue
                selfname = f.node.args.args[0].arg
                pann = {a.arg: a.annotation for a in f.params}
                for n in ast.walk(f.node):
                    tgt = val = ann = None
                    if isinstance(n, ast.AnnAssign):
                        tgt, val, ann = n.target, n.value, n.annotation
                        targets = [tgt]
                    elif isinstance(n, ast.Assign):
                        targets, val = n.targets, n.value
                    else:
                        continue
                    for t in targets:
                        if (
                            isinstance(t, ast.Attribute)
                            and isinstance(t.value, ast.Name)
                            and t.value.id == selfname
                        ):
                            a = ann
                            if a is None and isinstance(val, ast.Name) and val.id in pann:
                                a = pann[val.id]
                            if t.attr not in res or (res[t.attr][0] is None and a is not None):
                                res[t.attr] = (a, val, f)
            self._self_attrs = res
        return self._self_attrs

    def slots(self) -> list[str] | None:
        v = self.class_assigns.get("__slots__")
        if v is None:
            return None
        if isinstance(v, (ast.Tuple, ast.List)):
            return [e.value for e in v.elts if isinstance(e, ast.Constant)]
        if isinstance(v, ast.Constant) and isinstance(v.value, str):
            return [v.value]
        return None


class Module:
    def __init__(self, name, path, relpath, src, tree):
        self.name = name
        self.path = path
        self.relpath = relpath
        self.src = src
        self.tree = tree
        self.imports: dict[str, str] = {}
        self.functions: dict[str, FuncInfo] = {}
        self.classes: dict[str, ClassInfo] = {}
        self.assigns: dict[str, ast.expr] = {}
        self.annots: dict[str, ast.expr] = {}
        self.all_assigns: dict[str, list[ast.stmt]] = {}
        self._parents = None

    def __repr__(self):
        return f"<module {self.name}>"

    def parents(self) -> dict[ast.AST, ast.AST]:
        if self._parents is None:
            p = {}
            for n in ast.walk(self.tree):
                for c in ast.iter_child_nodes(n):
                    p[c] = n
            self._parents = p
        return self._parents

    def seg(self, node) -> str:
        return ast.get_source_segment(self.src, node) or ast.unparse(node)


def _iter_toplevel(body) -> Iterator[ast.stmt]:
    """Top-level statements, descending into if/try (TYPE_CHECKING, version checks)."""
    for s in body:
        yield s
        if isinstance(s, ast.If):
            yield from _iter_toplevel(s.body)
            yield from _iter_toplevel(s.orelse)
        elif isinstance(s, ast.Try):
            yield from _iter_toplevel(s.body)
            for h in s.handlers:
                yield from _iter_toplevel(h.body)
            yield from _iter_toplevel(s.orelse)
            yield from _iter_toplevel(s.finalbody)
        elif isinstance(s, ast.With):
            yield from _iter_toplevel(s.body)


class Index:
    def __init__(self, root: str = REPO, packages=("mypy", "mypyc"), extra_files: dict | None = None):
        self.root = root
        self.modules: dict[str, Module] = {}
        self.classes: dict[str, ClassInfo] = {}
        self.functions: dict[str, FuncInfo] = {}
        self.by_method_name: dict[str, list[FuncInfo]] = {}
        self.by_class_name: dict[str, list[ClassInfo]] = {}
        self.parse_failures: list[str] = []
        for pkg in packages:
            base = os.path.join(root, pkg)
            if not os.path.isdir(base):
                raise AnalysisError(f"package directory missing: {base}")
            for dp, dns, fns in os.walk(base):
                dns[:] = sorted(d for d in dns if d not in EXCLUDE_DIRS)
                for fn in sorted(fns):
                    if fn.endswith(".py"):
                        self._load(os.path.join(dp, fn))
        for name, (path, src) in (extra_files or {}).items():
            self._load(path, name=name, src=src)
        self._link()
        self.local_renames: dict[str, dict[str, str]] = {}
        if not os.environ.get("VERIF_NO_LOCALREF"):
            from .localref import load_reference, normalise
            ref = load_reference()
            for q, fmap in ref.items():
                fi = self.functions.get(q)
                if fi is not None and fi.parent is None:
                    mp = normalise(fi.node, fmap)
                    if mp:
                        self.local_renames[q] = mp

    # ---- loading

    def _load(self, path: str, name: str | None = None, src: str | None = None) -> None:
        rel = os.path.relpath(path, self.root) if path.startswith(self.root) else path
        if name is None:
            name = rel[:-3].replace(os.sep, ".")
            if name.endswith(".__init__"):
                name = name[: -len(".__init__")]
        if src is None:
            with open(path, encoding="utf-8") as f:
                src = f.read()
        try:
            tree = ast.parse(src, filename=path)
        except SyntaxError as e:
            self.parse_failures.append(f"{rel}: {e}")
            return
        m = Module(name, path, rel, src, tree)
        self.modules[name] = m
        self._scan_module(m)

    def _scan_module(self, m: Module) -> None:
        pkg = m.name if m.path.endswith("__init__.py") else m.name.rpartition(".")[0]
        for s in _iter_toplevel(m.tree.body):
            if isinstance(s, ast.Import):
                for a in s.names:
                    if a.asname:
                        m.imports[a.asname] = a.name
                    else:
                        m.imports[a.name.split(".")[0]] = a.name.split(".")[0]
            elif isinstance(s, ast.ImportFrom):
                base = s.module or ""
                if s.level:
                    parts = pkg.split(".")
                    parts = parts[: len(parts) - (s.level - 1)]
                    base = ".".join(parts + ([s.module] if s.module else []))
                for a in s.names:
                    m.imports[a.asname or a.name] = f"{base}.{a.name}"
            elif isinstance(s, (ast.FunctionDef, ast.AsyncFunctionDef)):
                fi = FuncInfo(s.name, f"{m.name}.{s.name}", s, m)
                # keep the first non-overload definition if duplicates; last wins otherwise
                m.functions[s.name] = fi
            elif isinstance(s, ast.ClassDef):
                self._scan_class(m, s, f"{m.name}.{s.name}")
            elif isinstance(s, ast.Assign):
                for t in s.targets:
                    for nm in _target_names(t):
                        m.all_assigns.setdefault(nm, []).append(s)
                    if isinstance(t, ast.Name):
                        m.assigns[t.id] = s.value
            elif isinstance(s, ast.AnnAssign):
                if isinstance(s.target, ast.Name):
                    m.annots[s.target.id] = s.annotation
                    m.all_assigns.setdefault(s.target.id, []).append(s)
                    if s.value is not None:
                        m.assigns[s.target.id] = s.value
            elif isinstance(s, ast.AugAssign):
                for nm in _target_names(s.target):
                    m.all_assigns.setdefault(nm, []).append(s)
        for fi in m.functions.values():
            self.functions[fi.qualname] = fi
            self._scan_nested(fi)

    def _scan_nested(self, fi: FuncInfo) -> None:
        for n in ast.walk(fi.node):
            if n is not fi.node and isinstance(n, (ast.FunctionDef, ast.AsyncFunctionDef)):
                q = f"{fi.qualname}.<locals>.{n.name}"
                if q not in self.functions:
                    self.functions[q] = FuncInfo(n.name, q, n, fi.module, fi.cls, parent=fi)

    def _scan_class(self, m: Module, node: ast.ClassDef, qual: str) -> None:
        ci = ClassInfo(node.name, qual, node, m)
        if "." not in qual[len(m.name) + 1 :]:
            m.classes[node.name] = ci
        self.classes[qual] = ci
        self.by_class_name.setdefault(node.name, []).append(ci)
        for s in _iter_toplevel(node.body):
            if isinstance(s, (ast.FunctionDef, ast.AsyncFunctionDef)):
                is_overload = any(
                    (isinstance(d, ast.Name) and d.id == "overload") for d in s.decorator_list
                )
                is_setter = any(
                    isinstance(d, ast.Attribute) and d.attr in ("setter", "deleter")
                    for d in s.decorator_list
                )
                fi = FuncInfo(s.name, f"{qual}.{s.name}", s, m, ci)
                if is_setter:
                    ci.methods.setdefault(s.name + ".setter", fi)
                    self.functions[fi.qualname + ".setter"] = fi
                    continue
                if is_overload and s.name in ci.methods:
                    continue
                ci.methods[s.name] = fi
                self.functions[fi.qualname] = fi
                self._scan_nested(fi)
            elif isinstance(s, ast.AnnAssign) and isinstance(s.target, ast.Name):
                ci.class_annots[s.target.id] = s.annotation
                if s.value is not None:
                    ci.class_assigns[s.target.id] = s.value
            elif isinstance(s, ast.Assign):
                for t in s.targets:
                    if isinstance(t, ast.Name):
                        ci.class_assigns[t.id] = s.value
            elif isinstance(s, ast.ClassDef):
                self._scan_class(m, s, f"{qual}.{s.name}")
        for f in ci.methods.values():
            self.by_method_name.setdefault(f.name, []).append(f)

    def _link(self) -> None:
        for ci in self.classes.values():
            for b in ci.base_exprs:
                if isinstance(b, ast.Subscript):
                    b = b.value
                r = self.resolve_expr_static(ci.module, b)
                if r is not None and r[0] == "class":
                    ci.bases.append(r[1])
                    r[1].subclasses.append(ci)
                else:
                    ci.unresolved_bases.append(ast.unparse(b))

    # ---- name resolution

    def resolve_qualified(self, q: str, _depth=0):
        """('module', Module) | ('class', ClassInfo) | ('func', FuncInfo) | ('const', Module, name) | None"""
        if _depth > 8:
            return None
        if q in self.modules:
            return ("module", self.modules[q])
        if q in self.classes:
            return ("class", self.classes[q])
        if q in self.functions:
            return ("func", self.functions[q])
        modname, _, nm = q.rpartition(".")
        if modname in self.modules:
            m = self.modules[modname]
            if nm in m.imports:
                return self.resolve_qualified(m.imports[nm], _depth + 1)
            if nm in m.assigns or nm in m.annots:
                return ("const", m, nm)
            return None
        if modname:
            r = self.resolve_qualified(modname, _depth + 1)
            if r and r[0] == "class":
                f = r[1].lookup_method(nm)
                if f:
                    return ("func", f)
                if f"{r[1].qualname}.{nm}" in self.classes:
                    return ("class", self.classes[f"{r[1].qualname}.{nm}"])
        return None

    def resolve_name(self, m: Module, name: str):
        if name in m.classes:
            return ("class", m.classes[name])
        if name in m.functions:
            return ("func", m.functions[name])
        if name in m.imports:
            r = self.resolve_qualified(m.imports[name])
            if r is None:
                return ("external", m.imports[name])
            return r
        if name in m.assigns or name in m.annots:
            return ("const", m, name)
        return None

    def resolve_expr_static(self, m: Module, e: ast.expr):
        """Resolve Name / dotted Attribute to a module-level entity."""
        if isinstance(e, ast.Name):
            return self.resolve_name(m, e.id)
        if isinstance(e, ast.Attribute):
            base = self.resolve_expr_static(m, e.value)
            if base is None:
                return None
            if base[0] == "module":
                return self.resolve_qualified(f"{base[1].name}.{e.attr}") or self.resolve_name(
                    base[1], e.attr
                )
            if base[0] == "external":
                return ("external", f"{base[1]}.{e.attr}")
            if base[0] == "class":
                f = base[1].lookup_method(e.attr)
                if f:
                    return ("func", f)
                q = f"{base[1].qualname}.{e.attr}"
                if q in self.classes:
                    return ("class", self.classes[q])
                for c in base[1].mro():
                    if e.attr in c.class_assigns or e.attr in c.class_annots:
                        return ("classattr", c, e.attr)
        return None

    # ---- lookups that must succeed

    def module(self, name: str) -> Module:
        if name not in self.modules:
            raise AnalysisError(f"anchor module vanished: {name}")
        return self.modules[name]

    def func(self, qual: str) -> FuncInfo:
        if qual not in self.functions:
            raise AnalysisError(f"anchor function vanished: {qual}")
        return self.functions[qual]

    def cls(self, qual: str) -> ClassInfo:
        if qual not in self.classes:
            raise AnalysisError(f"anchor class vanished: {qual}")
        return self.classes[qual]

    # ---- constants

    def const_eval(self, m: Module, e: ast.expr, _depth=0, env=None):
        """Evaluate a module-level constant expression built from literals, set algebra, comprehensions
        over constant iterables and a few pure builtins (constant propagation, no code is run)."""
        if _depth > 12:
            raise AnalysisError("constant evaluation too deep")
        ev = lambda x: self.const_eval(m, x, _depth + 1, env)  # noqa: E731
        if env and isinstance(e, ast.Name) and e.id in env:
            return env[e.id]
        if isinstance(e, (ast.DictComp, ast.SetComp, ast.ListComp, ast.GeneratorExp)):
            if len(e.generators) != 1 or e.generators[0].is_async:
                raise AnalysisError(f"cannot evaluate comprehension {ast.unparse(e)[:60]} in {m.name}")
            gen = e.generators[0]
            out_items = []
            for item in ev(gen.iter):
                env2 = dict(env or {})
                tg = gen.target
                if isinstance(tg, ast.Name):
                    env2[tg.id] = item
                elif isinstance(tg, ast.Tuple) and all(isinstance(x, ast.Name) for x in tg.elts) and len(tg.elts) == len(item):
                    env2.update({x.id: v for x, v in zip(tg.elts, item)})
                else:
                    raise AnalysisError(f"cannot bind comprehension target {ast.unparse(tg)} in {m.name}")
                ev2 = lambda x: self.const_eval(m, x, _depth + 1, env2)  # noqa: E731
                if all(ev2(c) for c in gen.ifs):
                    out_items.append((ev2(e.key), ev2(e.value)) if isinstance(e, ast.DictComp) else ev2(e.elt))
            if isinstance(e, ast.DictComp):
                return dict(out_items)
            return set(out_items) if isinstance(e, ast.SetComp) else list(out_items)
        if isinstance(e, ast.Compare) and len(e.ops) == 1:
            l, r = ev(e.left), ev(e.comparators[0])
            o = e.ops[0]
            table = {ast.Eq: lambda: l == r, ast.NotEq: lambda: l != r, ast.In: lambda: l in r, ast.NotIn: lambda: l not in r}
            if type(o) in table:
                return table[type(o)]()
        if isinstance(e, ast.Constant):
            return e.value
        if isinstance(e, (ast.Tuple, ast.List)):
            out = []
            for x in e.elts:
                if isinstance(x, ast.Starred):
                    out.extend(ev(x.value))
                else:
                    out.append(ev(x))
            return tuple(out) if isinstance(e, ast.Tuple) else out
        if isinstance(e, ast.Set):
            return {ev(x) for x in e.elts}
        if isinstance(e, ast.Dict):
            d = {}
            for k, v in zip(e.keys, e.values):
                if k is None:
                    d.update(ev(v))
                else:
                    try:
                        d[ev(k)] = ev(v)
                    except AnalysisError:
                        d[ev(k)] = v  # keep the AST for non-constant values (lambdas, functions)
            return d
        if isinstance(e, ast.Name):
            r = self.resolve_name(m, e.id)
            if r and r[0] == "const":
                mm, nm = r[1], r[2]
                if nm in mm.assigns:
                    return self.const_eval(mm, mm.assigns[nm], _depth + 1)
            raise AnalysisError(f"cannot evaluate name {e.id} in {m.name}")
        if isinstance(e, ast.Attribute):
            r = self.resolve_expr_static(m, e)
            if r and r[0] == "const":
                return self.const_eval(r[1], r[1].assigns[r[2]], _depth + 1)
            if r and r[0] == "classattr":
                return self.const_eval(r[1].module, r[1].class_assigns[r[2]], _depth + 1)
            raise AnalysisError(f"cannot evaluate {ast.unparse(e)} in {m.name}")
        if isinstance(e, ast.BinOp):
            l, r = ev(e.left), ev(e.right)
            if isinstance(e.op, ast.BitOr):
                return l | r
            if isinstance(e.op, ast.Sub):
                return l - r
            if isinstance(e.op, ast.Add):
                return l + r
            if isinstance(e.op, ast.BitAnd):
                return l & r
            if isinstance(e.op, ast.Mult):
                return l * r
            if isinstance(e.op, ast.LShift):
                return l << r
            if isinstance(e.op, ast.Pow):
                return l**r
        if isinstance(e, ast.UnaryOp) and isinstance(e.op, ast.USub):
            return -ev(e.operand)
        if isinstance(e, ast.Subscript) and not isinstance(e.slice, ast.Slice):
            # indexing a constant table with a constant key: `op_methods[op]`
            base, key = ev(e.value), ev(e.slice)
            try:
                v = base[key]
            except (KeyError, IndexError, TypeError) as exc:
                raise AnalysisError(f"constant subscript {ast.unparse(e)[:50]} fails in {m.name}: {exc!r}")
            if isinstance(v, ast.AST):
                raise AnalysisError(f"non-constant table entry in {ast.unparse(e)[:50]}")
            return v
        if isinstance(e, ast.Call):
            fn = e.func
            if isinstance(fn, ast.Name) and fn.id in ("set", "frozenset", "tuple", "list", "sorted", "dict"):
                if not e.args:
                    return {"set": set(), "frozenset": frozenset(), "tuple": (), "list": [], "sorted": [], "dict": {}}[fn.id]
                v = ev(e.args[0])
                return {"set": set, "frozenset": frozenset, "tuple": tuple, "list": list, "sorted": sorted, "dict": dict}[fn.id](v)
            if isinstance(fn, ast.Name) and fn.id in ("zip", "reversed", "enumerate") and e.args and not e.keywords:
                vals = [list(ev(a)) for a in e.args]
                if fn.id == "zip":
                    return list(zip(*vals))
                if fn.id == "reversed":
                    return list(reversed(vals[0]))
                return list(enumerate(vals[0]))
            if isinstance(fn, ast.Attribute) and fn.attr in ("items", "keys", "values") and not e.args:
                v = ev(fn.value)
                if isinstance(v, dict):
                    return list(getattr(v, fn.attr)())
            if isinstance(fn, ast.Attribute) and fn.attr == "copy" and not e.args:
                v = ev(fn.value)
                return v.copy() if hasattr(v, "copy") else v
            if isinstance(fn, ast.Attribute) and fn.attr in ("union",):
                v = ev(fn.value)
                for a in e.args:
                    v = v | set(ev(a))
                return v
        raise AnalysisError(f"cannot evaluate constant expression {ast.unparse(e)[:80]} in {m.name}")


def _target_names(t) -> list[str]:
    if isinstance(t, ast.Name):
        return [t.id]
    if isinstance(t, (ast.Tuple, ast.List)):
        return [n for e in t.elts for n in _target_names(e)]
    if isinstance(t, ast.Starred):
        return _target_names(t.value)
    return []


_INDEX_CACHE: dict[tuple, Index] = {}


def get_index(root: str = REPO) -> Index:
    key = (root,)
    if key not in _INDEX_CACHE:
        _INDEX_CACHE[key] = Index(root)
    return _INDEX_CACHE[key]


def walk_no_nested(node: ast.AST, include_lambdas=True) -> Iterator[ast.AST]:
    """ast.walk that does not descend into nested function/class definitions."""
    todo = list(ast.iter_child_nodes(node))
    while todo:
        n = todo.pop()
        yield n
        if isinstance(n, (ast.FunctionDef, ast.AsyncFunctionDef, ast.ClassDef)):
            continue
        todo.extend(ast.iter_child_nodes(n))


def norm(node: ast.AST) -> str:
    """Normalised text of a construct (used in table keys; never line numbers)."""
    return " ".join(ast.unparse(node).split())
