"""May-raise summaries.

raises(f) = classes of explicit `raise` statements of f that are not caught inside f
          + raises of resolved callees (same rule, to a fixpoint with a visited set)
          + a frozen table of standard-library effects used at the analysed sites.
Branches guarded by `sys.platform == "win32"` are skipped (the analysis is for POSIX).
Each element is (exception class name, origin text).
"""

from __future__ import annotations

import ast
import builtins

from .index import FuncInfo, Index, norm
from .resolve import Resolver

# method / function name -> exception classes (receiver outside the index)
STDLIB_BY_ATTR = {
    "recv": {"OSError"},
    "sendall": {"OSError"},
    "send": {"OSError"},
    "accept": {"OSError"},
    "connect": {"OSError"},
    "bind": {"OSError"},
    "listen": {"OSError"},
    "decode": {"UnicodeDecodeError"},
}
STDLIB_BY_DOTTED = {
    "json.loads": {"ValueError"},
    "os.unlink": {"OSError"},
    "os.remove": {"OSError"},
    "os.replace": {"OSError"},
    "os.rename": {"OSError"},
    "os.utime": {"OSError"},
    "os.makedirs": {"OSError"},
    "os.mkdir": {"OSError"},
    "os.stat": {"OSError"},
    "os.path.getmtime": {"OSError"},
    "shutil.rmtree": {"OSError"},
    "open": {"OSError"},
    "sys.exit": {"SystemExit"},
    "os._exit": set(),
}


def is_subclass(ix: Index, exc: str, handler: str) -> bool:
    """exc <= handler in the exception hierarchy (builtins from the interpreter, repo classes from the index)."""
    if exc == handler or handler in ("BaseException",):
        return True
    e = getattr(builtins, exc.split(".")[-1], None) if "." not in exc or exc.startswith("builtins.") else None
    h = getattr(builtins, handler.split(".")[-1], None)
    if exc == "struct.error":
        return handler in ("Exception", "struct.error")
    if isinstance(e, type) and isinstance(h, type):
        return issubclass(e, h)
    # repo-defined exception classes
    cands = ix.by_class_name.get(exc.split(".")[-1], [])
    for ci in cands:
        for c in ci.mro():
            if c.name == handler.split(".")[-1]:
                return True
        # unresolved (builtin) bases
        for c in ci.mro():
            for b in c.unresolved_bases:
                if b == handler or is_subclass(ix, b, handler) if getattr(builtins, b, None) else False:
                    return True
    return False


def is_win32_test(t: ast.expr) -> bool | None:
    """True if the test is `sys.platform == "win32"`, False if `!=`, else None."""
    if isinstance(t, ast.Compare) and len(t.ops) == 1 and norm(t.left) == "sys.platform" and isinstance(t.comparators[0], ast.Constant) and t.comparators[0].value == "win32":
        if isinstance(t.ops[0], ast.Eq):
            return True
        if isinstance(t.ops[0], ast.NotEq):
            return False
    return None


class Raises:
    def __init__(self, ix: Index, R: Resolver):
        self.ix = ix
        self.R = R
        self._sum: dict[str, set] = {}
        self._active: set[str] = set()
        self.unresolved_calls: list[str] = []

    def of_function(self, f: FuncInfo) -> set[tuple[str, str]]:
        q = f.qualname
        if q in self._sum:
            return self._sum[q]
        if q in self._active:
            return set()
        self._active.add(q)
        try:
            res = self.of_block(f.node.body, f, [])
        finally:
            self._active.discard(q)
        self._sum[q] = res
        return res

    def _catch(self, raised: set, handlers: list[ast.ExceptHandler]) -> tuple[set, dict]:
        """Split `raised` into escaping and {handler: caught}."""
        esc, caught = set(), {}
        for exc, origin in raised:
            for h in handlers:
                hts = ["BaseException"] if h.type is None else [norm(t) for t in (h.type.elts if isinstance(h.type, ast.Tuple) else [h.type])]
                if any(is_subclass(self.ix, exc, ht) for ht in hts):
                    caught.setdefault(h, set()).add((exc, origin))
                    break
            else:
                esc.add((exc, origin))
        return esc, caught

    def of_block(self, stmts, f: FuncInfo, handler_ctx: list) -> set[tuple[str, str]]:
        out: set = set()
        for s in stmts:
            out |= self.of_stmt(s, f, handler_ctx)
        return out

    def of_stmt(self, s, f: FuncInfo, handler_ctx) -> set:
        if isinstance(s, (ast.FunctionDef, ast.AsyncFunctionDef, ast.ClassDef)):
            return set()
        if isinstance(s, ast.If):
            w = is_win32_test(s.test)
            out = self.of_expr(s.test, f)
            if w is not True:
                out |= self.of_block(s.body, f, handler_ctx)
            if w is not False:
                out |= self.of_block(s.orelse, f, handler_ctx)
            return out
        if isinstance(s, ast.Try):
            body = self.of_block(s.body, f, handler_ctx)
            esc, caught = self._catch(body, s.handlers)
            out = set(esc)
            out |= self.of_block(s.orelse, f, handler_ctx)
            for h in s.handlers:
                out |= self.of_block(h.body, f, handler_ctx + [(h, caught.get(h, set()))])
            out |= self.of_block(s.finalbody, f, handler_ctx)
            return out
        if isinstance(s, ast.Raise):
            if s.exc is None:
                if handler_ctx:
                    h, caught = handler_ctx[-1]
                    if caught:
                        return {(e, f"re-raised at {f.module.relpath}:{s.lineno} (from {o})") for e, o in caught}
                    hts = ["BaseException"] if h.type is None else [norm(t) for t in (h.type.elts if isinstance(h.type, ast.Tuple) else [h.type])]
                    return {(t, f"re-raise at {f.module.relpath}:{s.lineno}") for t in hts}
                return {("BaseException", f"bare raise at {f.module.relpath}:{s.lineno}")}
            e = s.exc.func if isinstance(s.exc, ast.Call) else s.exc
            out = {(norm(e).split(".")[-1] if not norm(e).startswith("struct.") else norm(e), f"raise at {f.module.relpath}:{s.lineno}")}
            if isinstance(s.exc, ast.Call):
                for a in s.exc.args:
                    out |= self.of_expr(a, f)
            return out
        if isinstance(s, (ast.For, ast.AsyncFor)):
            return self.of_expr(s.iter, f) | self.of_block(s.body, f, handler_ctx) | self.of_block(s.orelse, f, handler_ctx)
        if isinstance(s, ast.While):
            return self.of_expr(s.test, f) | self.of_block(s.body, f, handler_ctx) | self.of_block(s.orelse, f, handler_ctx)
        if isinstance(s, (ast.With, ast.AsyncWith)):
            out = set()
            for it in s.items:
                out |= self.of_expr(it.context_expr, f)
                out |= self.of_with_enter(it.context_expr, f)
            return out | self.of_block(s.body, f, handler_ctx)
        if isinstance(s, ast.Match):
            out = self.of_expr(s.subject, f)
            for c in s.cases:
                out |= self.of_block(c.body, f, handler_ctx)
            return out
        if isinstance(s, ast.Assert):
            return set()  # assertions state beliefs; not modelled as raises
        out = set()
        for n in ast.iter_child_nodes(s):
            if isinstance(n, ast.expr):
                out |= self.of_expr(n, f)
        return out

    def of_with_enter(self, ctx: ast.expr, f: FuncInfo) -> set:
        t = self.R.type_of(ctx, f)
        out = set()
        if t and t[0] == "cls":
            ci = self.ix.classes.get(t[1])
            for mname in ("__enter__", "__exit__"):
                m = ci.lookup_method(mname) if ci else None
                if m is not None:
                    out |= {(e, f"{mname} of `{norm(ctx)}`: {o}") for e, o in self.of_function(m)}
        return out

    def of_expr(self, e: ast.expr, f: FuncInfo) -> set:
        out = set()
        if e is None:
            return out
        for n in ast.walk(e):
            if isinstance(n, ast.Lambda):
                continue
            if isinstance(n, ast.Call):
                out |= self.of_call(n, f)
        return out

    def of_call(self, c: ast.Call, f: FuncInfo) -> set:
        where = f"{f.module.relpath}:{c.lineno}"
        txt = norm(c.func)
        if txt in STDLIB_BY_DOTTED:
            return {(e, f"{txt}() at {where}") for e in STDLIB_BY_DOTTED[txt]}
        callees, resolved = self.R.callees(c, f)
        out = set()
        if callees:
            for g in callees:
                if g.name == "__init__" and g.cls is not None and is_exception_class(self.ix, g.cls):
                    continue
                out |= {(e, f"{g.qualname} called at {where}: {o}") for e, o in self.of_function(g)}
            return out
        if isinstance(c.func, ast.Attribute) and c.func.attr in STDLIB_BY_ATTR:
            t = self.R.type_of(c.func.value, f)
            if t is None or t[0] in ("ext", "extref") :
                return {(e, f"{txt}() at {where}") for e in STDLIB_BY_ATTR[c.func.attr]}
        if not resolved:
            self.unresolved_calls.append(f"{txt} at {where}")
        return out


def is_exception_class(ix: Index, ci) -> bool:
    for c in ci.mro():
        if any(b in ("Exception", "BaseException", "OSError", "ValueError") or b.endswith("Error") for b in c.unresolved_bases):
            return True
    return False
