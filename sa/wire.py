"""Wire-grammar extraction for the binary cache / IPC serializers.

For a writer `write(self, data)` and a reader `read(cls, data)` the extractor produces a canonical
*wire term*:

  Seq  := [Item...]
  Item := ("T", K)                      tag constant K written / expected
        | ("P", kind, label)            primitive payload (int_bare, str_bare, bytes_bare, float_bare)
        | ("BOOL", label)               write_bool / read_bool  (tag LITERAL_FALSE | LITERAL_TRUE)
        | ("BODY", class, label)        the part of class's record its `read` consumes
        | ("ALT", {key: (Seq, returns)})  choice keyed by the first tag of each branch ("*" = any other tag)
        | ("COND", test, Seq, Seq)      value-dependent choice mirrored on both sides (same test text)
        | ("LOOP", Seq, label, filter)  int_bare count followed by that many repetitions
        | ("REC", name)                 recursive reference to a helper (paired write_X <-> read_X)
        | ("AXIOM", name)               librt / opaque primitive consuming one tagged object

Helper *functions* (write_str, read_type_list ...) are inlined down to librt.internal primitives;
class methods `x.write(data)` / `X.read(data)` stay references (BODY) and are verified class by class.
Only the librt.internal primitives are axioms.  An unrecognised statement that touches the buffer is
an AnalysisError, never ignored.
"""

from __future__ import annotations

import ast

from .index import AnalysisError, ClassInfo, FuncInfo, Index, norm
from .resolve import Resolver, members

PRIM_W = {"write_int_bare": "int_bare", "write_str_bare": "str_bare", "write_bytes_bare": "bytes_bare", "write_float_bare": "float_bare"}
PRIM_R = {"read_int_bare": "int_bare", "read_str_bare": "str_bare", "read_bytes_bare": "bytes_bare", "read_float_bare": "float_bare"}
BUF_TYPES = ("WriteBuffer", "ReadBuffer")
OPAQUE_READERS = {"extract_symbol": "consumes exactly one tagged object (librt.internal); decoded later by read_symbol"}


def T(k):
    return ("T", k)


def fmt(seq, ind=0) -> str:
    out = []
    pad = "  " * ind
    for it in seq:
        if it[0] == "ALT":
            out.append(f"{pad}ALT")
            for k, (s, r) in it[1].items():
                out.append(f"{pad} [{k}]{' (returns)' if r else ''}")
                out.append(fmt(s, ind + 2))
        elif it[0] == "COND":
            out.append(f"{pad}COND {it[1]}")
            out.append(fmt(it[2], ind + 1))
            out.append(f"{pad}ELSE")
            out.append(fmt(it[3], ind + 1))
        elif it[0] == "LOOP":
            out.append(f"{pad}LOOP <{it[2]}>" + (f" filter={it[3]}" if it[3] else ""))
            out.append(fmt(it[1], ind + 1))
        else:
            out.append(pad + " ".join(str(x) for x in it))
    return "\n".join(x for x in out if x)


def root_label(e: ast.expr | None) -> str:
    """Data source / destination label of an expression: the attribute (or local) it is rooted at."""
    if e is None:
        return "?"
    if isinstance(e, ast.Attribute):
        if isinstance(e.value, ast.Name):
            return e.attr if e.value.id in ("self", "ret", "cls") or True else e.attr
        # self.type.fullname -> type.fullname
        return f"{root_label(e.value)}.{e.attr}"
    if isinstance(e, ast.Name):
        return "$" + e.id
    if isinstance(e, ast.Call):
        f = e.func
        if isinstance(f, ast.Name) and f.id in ("len", "sorted", "list", "int", "str", "tuple", "set", "bool", "cast", "float") and e.args:
            return root_label(e.args[-1])
        if isinstance(f, ast.Attribute) and f.attr in ("hex", "items", "keys", "values", "copy") and not e.args:
            return root_label(f.value)
        if isinstance(f, ast.Attribute) and f.attr == "get":
            return root_label(f.value)
        if isinstance(f, ast.Attribute) and norm(f) == "bytes.fromhex" and e.args:
            return root_label(e.args[0])
        for a in e.args:
            return root_label(a)
    if isinstance(e, (ast.ListComp, ast.SetComp, ast.GeneratorExp)):
        return root_label(e.generators[0].iter)
    if isinstance(e, ast.DictComp):
        return root_label(e.generators[0].iter)
    if isinstance(e, ast.Subscript):
        return root_label(e.value)
    if isinstance(e, ast.IfExp):
        return root_label(e.body)
    if isinstance(e, ast.Constant):
        return repr(e.value)
    if isinstance(e, ast.BinOp):
        return root_label(e.left)
    return norm(e)[:30]


class Wire:
    def __init__(self, ix: Index, R: Resolver):
        self.ix = ix
        self.R = R
        self._active: list[str] = []
        self.class_tag: dict[str, str | None] = {}
        self.notes: list[str] = []

    # ------------------------------------------------------------------ common

    def buf_param(self, f: FuncInfo) -> str:
        for a in f.params:
            if a.annotation is not None and norm(a.annotation).split(".")[-1] in BUF_TYPES:
                return a.arg
        for a in f.params:
            if a.arg in ("data", "buf"):
                return a.arg
        raise AnalysisError(f"{f.qualname}: no buffer parameter")

    def touches(self, node: ast.AST, buf: str) -> bool:
        return any(isinstance(n, ast.Name) and n.id == buf for n in ast.walk(node))

    def tag_name(self, f: FuncInfo, e: ast.expr) -> str:
        """Canonical name of a tag constant expression (Name or dotted), checked to be a module constant."""
        txt = norm(e).split(".")[-1]
        return txt

    def resolve_callee(self, f: FuncInfo, c: ast.Call):
        """FuncInfo of a module-level helper call or classmethod, else None."""
        r = self.ix.resolve_expr_static(f.module, c.func) if isinstance(c.func, (ast.Name, ast.Attribute)) else None
        if r is not None and r[0] == "func":
            return r[1]
        # local import inside the function
        env = self.R.env(f)
        t = self.R.type_of(c.func, f, env)
        for x in members(t):
            if x[0] in ("func", "bound"):
                return self.ix.functions.get(x[1])
        return None

    def is_buf_func(self, g: FuncInfo) -> bool:
        return any(a.annotation is not None and norm(a.annotation).split(".")[-1] in BUF_TYPES for a in g.params)

    def concrete_writers(self, base: ClassInfo) -> list[ClassInfo]:
        """Concrete classes <= base that define their own `write` (abstract bases raise NotImplementedError)."""
        out = []
        for c in [base] + base.all_subclasses():
            w = c.methods.get("write")
            if w is None:
                continue
            if any(isinstance(n, ast.Raise) for n in w.node.body):
                continue
            out.append(c)
        return sorted(out, key=lambda c: c.qualname)

    def leading_tag(self, c: ClassInfo) -> str | None:
        """Tag constant a class's write emits first (unconditionally), if any."""
        if c.qualname in self.class_tag:
            return self.class_tag[c.qualname]
        w = c.methods.get("write")
        tag = None
        if w is not None:
            buf = self.buf_param(w)
            for s in w.node.body:
                if isinstance(s, ast.Expr) and isinstance(s.value, ast.Constant):
                    continue  # docstring
                if isinstance(s, ast.Expr) and isinstance(s.value, ast.Call) and norm(s.value.func).split(".")[-1] == "write_tag" and self.touches(s, buf):
                    tag = self.tag_name(w, s.value.args[1])
                break
        self.class_tag[c.qualname] = tag
        return tag

    def obj_items(self, c: ClassInfo, label: str) -> list:
        """A whole tagged record of concrete class c as the *caller* sees it."""
        tag = self.leading_tag(c)
        if tag is not None and self.read_skips_tag(c):
            return [T(tag), ("BODY", c.qualname, label)]
        return [("BODY", c.qualname, label)]

    def read_skips_tag(self, c: ClassInfo) -> bool:
        """Does c.read leave the leading class tag to its caller? (derived: read does not start by
        asserting that tag)"""
        r = c.methods.get("read")
        tag = self.leading_tag(c)
        if r is None or tag is None:
            return False
        buf = self.buf_param(r)
        for s in r.node.body:
            if isinstance(s, ast.Expr) and isinstance(s.value, ast.Constant):
                continue
            if isinstance(s, ast.Assert) and self.touches(s, buf) and norm(s.test).replace("mypy.types.", "").replace("mypy.nodes.", "") == f"read_tag({buf}) == {tag}":
                return False
            break
        return True

    def any_items(self, base: ClassInfo, label: str) -> list:
        """A tagged record of some concrete subclass of base: ALT over their tags."""
        cs = self.concrete_writers(base)
        if not cs:
            raise AnalysisError(f"no concrete writer below {base.qualname}")
        if len(cs) == 1:
            return self.obj_items(cs[0], label)
        br = {}
        for c in cs:
            tag = self.leading_tag(c)
            if tag is None:
                raise AnalysisError(f"{c.qualname}.write has no leading tag but is written through static type {base.qualname}")
            br[tag] = ([("BODY", c.qualname, label)], False)
        return [("ALT", br)]

    # ------------------------------------------------------------------ writer

    def write_term(self, f: FuncInfo, subst: dict | None = None) -> list:
        q = f.qualname
        if q in self._active:
            return [("REC", f.name)]
        self._active.append(q)
        try:
            buf = self.buf_param(f)
            prev = getattr(self, "_cur_writer", None)
            self._cur_writer = f
            try:
                seq, _ = self.w_block(f.node.body, f, buf, subst or {})
            finally:
                self._cur_writer = prev
            return self.canon(seq)
        finally:
            self._active.pop()

    def static_classes(self, e: ast.expr, f: FuncInfo, subst: dict) -> list[ClassInfo]:
        if isinstance(e, ast.Name) and e.id in subst and subst[e.id].get("types") is not None:
            return subst[e.id]["types"]
        if isinstance(e, ast.Subscript) and isinstance(e.value, ast.Name) and e.value.id in subst and subst[e.value.id].get("elem_types") is not None:
            return subst[e.value.id]["elem_types"]
        t = self.R.type_of(e, f)
        out = []
        for x in members(t):
            if x[0] == "cls" and x[1] in self.ix.classes:
                out.append(self.ix.classes[x[1]])
        return out

    def elem_classes(self, e: ast.expr, f: FuncInfo, subst: dict):
        if isinstance(e, ast.Name) and e.id in subst and subst[e.id].get("elem_types") is not None:
            return subst[e.id]["elem_types"]
        if isinstance(e, ast.Call) and isinstance(e.func, ast.Name) and e.func.id in ("sorted", "list", "reversed") and e.args:
            return self.elem_classes(e.args[0], f, subst)
        t = self.R.type_of(e, f)
        et = self.R.elem_of(t)
        if t and t[0] == "dict":
            et = t[2] if False else et
        out = []
        for x in members(et):
            if x[0] == "cls" and x[1] in self.ix.classes:
                out.append(self.ix.classes[x[1]])
        return out or None

    def value_domain(self, e: ast.expr, f: FuncInfo, subst: dict):
        """Set of builtin value kinds {'int','str','bool','float','complex','bytes','None'} an
        expression may have according to its annotation, or None when not determinable."""
        if isinstance(e, ast.Name) and e.id in subst:
            return subst[e.id].get("domain")
        ann = None
        mod = f.module
        cls = f.cls
        if isinstance(e, ast.Attribute) and isinstance(e.value, ast.Name) and e.value.id == "self" and f.cls is not None:
            ann, owner = f.cls.lookup_annot(e.attr)
            if owner is not None:
                mod = owner.module
        elif isinstance(e, ast.Name):
            for a in f.params:
                if a.arg == e.id:
                    ann = a.annotation
        if ann is None:
            return None
        return self._domain_of_ann(mod, ann, 0)

    def _domain_of_ann(self, mod, ann: ast.expr, depth: int):
        if depth > 6:
            return None
        if isinstance(ann, ast.Constant):
            if ann.value is None:
                return {"None"}
            if isinstance(ann.value, str):
                try:
                    return self._domain_of_ann(mod, ast.parse(ann.value, mode="eval").body, depth + 1)
                except SyntaxError:
                    return None
            return None
        if isinstance(ann, ast.BinOp) and isinstance(ann.op, ast.BitOr):
            l, r = self._domain_of_ann(mod, ann.left, depth + 1), self._domain_of_ann(mod, ann.right, depth + 1)
            return None if l is None or r is None else l | r
        if isinstance(ann, ast.Name):
            if ann.id in ("int", "str", "bool", "float", "complex", "bytes"):
                return {ann.id}
            if ann.id == "None":
                return {"None"}
            r = self.ix.resolve_name(mod, ann.id)
            if r is not None and r[0] == "const" and r[2] in r[1].assigns:
                return self._domain_of_ann(r[1], r[1].assigns[r[2]], depth + 1)
            if r is not None and r[0] == "class":
                return {"<other>"}
            return None
        if isinstance(ann, ast.Subscript) and norm(ann.value).split(".")[-1] in ("Optional",):
            inner = self._domain_of_ann(mod, ann.slice, depth + 1)
            return None if inner is None else inner | {"None"}
        if isinstance(ann, ast.Subscript) and norm(ann.value).split(".")[-1] in ("Final",):
            return self._domain_of_ann(mod, ann.slice, depth + 1)
        return None

    def dead_test(self, test: ast.expr, subst: dict):
        """True/False when a value-type test is decided by the argument's static domain, else None."""
        if isinstance(test, ast.Call) and isinstance(test.func, ast.Name) and test.func.id == "isinstance" and isinstance(test.args[0], ast.Name):
            dom = subst.get(test.args[0].id, {}).get("domain")
            if dom is None:
                return None
            ts = test.args[1].elts if isinstance(test.args[1], ast.Tuple) else [test.args[1]]
            names = {norm(t) for t in ts}
            if not names <= {"int", "str", "bool", "float", "complex", "bytes"}:
                return None
            if "int" in names:
                names = names | {"bool"}
            return None if names & dom else False
        if isinstance(test, ast.Compare) and len(test.ops) == 1 and isinstance(test.left, ast.Name) and isinstance(test.comparators[0], ast.Constant) and test.comparators[0].value is None:
            dom = subst.get(test.left.id, {}).get("domain")
            if dom is None:
                return None
            if "None" not in dom:
                return False if isinstance(test.ops[0], ast.Is) else True
        return None

    def w_label(self, e: ast.expr, subst: dict) -> str:
        if isinstance(e, ast.Name) and e.id in subst:
            return subst[e.id]["label"]
        if isinstance(e, ast.Attribute):
            base = e
            chain = []
            while isinstance(base, ast.Attribute):
                chain.append(base.attr)
                base = base.value
            if isinstance(base, ast.Name) and base.id in subst:
                return subst[base.id]["label"] + "." + ".".join(reversed(chain))
        lab = root_label(e)
        if lab.startswith("$") and lab[1:] in subst:
            return subst[lab[1:]]["label"]
        if lab.startswith("$") and getattr(self, "_cur_writer", None) is not None:
            src = self.writer_local_source(self._cur_writer, lab[1:])
            if src:
                return src
        return lab

    def writer_local_source(self, f: FuncInfo, name: str) -> str | None:
        """Attribute a writer-local was computed from (`a, b = self.attr`, `x = self.attr.y`)."""
        for n in ast.walk(f.node):
            if isinstance(n, ast.Assign):
                t = n.targets[0]
                if isinstance(t, ast.Tuple) and any(isinstance(x, ast.Name) and x.id == name for x in t.elts):
                    if isinstance(n.value, ast.Attribute):
                        return root_label(n.value)
                if isinstance(t, ast.Name) and t.id == name and isinstance(n.value, ast.Attribute):
                    return "$" + name  # keep the local's own name: `cross_ref = self.node.fullname` is a derived value
        return None

    def w_call(self, c: ast.Call, f: FuncInfo, buf: str, subst: dict) -> list:
        fn = c.func
        name = fn.attr if isinstance(fn, ast.Attribute) else getattr(fn, "id", "")
        args = list(c.args)
        # method-style: expr.write(data, ...)
        if isinstance(fn, ast.Attribute) and name == "write" and args and isinstance(args[0], ast.Name) and args[0].id == buf:
            recv = fn.value
            cs = self.static_classes(recv, f, subst)
            label = self.w_label(recv, subst)
            if not cs:
                raise AnalysisError(f"{f.qualname}:{c.lineno}: static class of `{norm(recv)}`.write(...) unknown")
            items_per = []
            concrete = []
            for ci in cs:
                for cc in self.concrete_writers(ci):
                    if cc not in concrete:
                        concrete.append(cc)
            if len(concrete) == 1:
                return self.obj_items(concrete[0], label)
            br = {}
            for cc in concrete:
                tag = self.leading_tag(cc)
                if tag is None:
                    raise AnalysisError(f"{cc.qualname}.write has no leading tag but is one of several classes written at {f.qualname}:{c.lineno}")
                br[tag] = ([("BODY", cc.qualname, label)], False)
            return [("ALT", br)]
        if not (args and isinstance(args[0], ast.Name) and args[0].id == buf):
            if self.touches(c, buf):
                raise AnalysisError(f"{f.qualname}:{c.lineno}: buffer passed in an unrecognised way: {norm(c)[:60]}")
            return []
        val = args[1] if len(args) > 1 else None
        if name == "write_tag":
            return [T(self.tag_name(f, val))]
        if name in PRIM_W:
            return [("P", PRIM_W[name], self.w_label(val, subst))]
        if name == "write_bool":
            if isinstance(val, ast.Constant) and isinstance(val.value, bool):
                return [T("LITERAL_TRUE" if val.value else "LITERAL_FALSE")]
            return [("BOOL", self.w_label(val, subst))]
        if name == "write_flags":
            if isinstance(val, ast.List):
                labels = [self.w_label(x, subst) for x in val.elts]
            elif isinstance(val, ast.Name) and val.id in subst and "flags" in subst[val.id]:
                labels = subst[val.id]["flags"]
            elif isinstance(val, ast.Name) and len([a for a in ast.walk(f.node) if isinstance(a, ast.Assign) and len(a.targets) == 1 and isinstance(a.targets[0], ast.Name) and a.targets[0].id == val.id]) == 1 and isinstance(next(a for a in ast.walk(f.node) if isinstance(a, ast.Assign) and len(a.targets) == 1 and isinstance(a.targets[0], ast.Name) and a.targets[0].id == val.id).value, ast.List):
                # the flag list goes through a local assigned exactly once
                lst = next(a for a in ast.walk(f.node) if isinstance(a, ast.Assign) and len(a.targets) == 1 and isinstance(a.targets[0], ast.Name) and a.targets[0].id == val.id).value
                labels = [self.w_label(x, subst) for x in lst.elts]
            else:
                raise AnalysisError(f"{f.qualname}:{c.lineno}: write_flags argument is not a list literal")
            return [("FLAGS", tuple(labels))]
        g = self.resolve_callee(f, c)
        if g is None or not self.is_buf_func(g):
            raise AnalysisError(f"{f.qualname}:{c.lineno}: unknown writer call {norm(c.func)}")
        # inline the helper, substituting its value parameter(s)
        sub2 = {}
        gparams = [a.arg for a in g.params]
        for i, a in enumerate(args[1:], start=1):
            if i < len(gparams):
                ent = {"label": self.w_label(a, subst), "domain": self.value_domain(a, f, subst)}
                cs = self.static_classes(a, f, subst)
                ent["types"] = cs or None
                ent["elem_types"] = self.elem_classes(a, f, subst)
                if isinstance(a, ast.List):
                    ent["flags"] = [self.w_label(x, subst) for x in a.elts]
                sub2[gparams[i]] = ent
        for k in c.keywords:
            if k.arg in gparams:
                sub2[k.arg] = {"label": self.w_label(k.value, subst), "types": self.static_classes(k.value, f, subst) or None, "elem_types": self.elem_classes(k.value, f, subst)}
        if g.qualname in self._active:
            return [("REC", g.name.replace("write_", ""))]
        return close(self.write_term(g, sub2))

    def w_block(self, stmts, f: FuncInfo, buf: str, subst: dict):
        """-> (raw Seq, returns)"""
        seq: list = []
        i = 0
        stmts = list(stmts)
        while i < len(stmts):
            s = stmts[i]
            i += 1
            if isinstance(s, ast.Expr) and isinstance(s.value, ast.Constant):
                continue
            if isinstance(s, ast.Return):
                if s.value is not None and self.touches(s.value, buf):
                    raise AnalysisError(f"{f.qualname}:{s.lineno}: return value touches the buffer")
                return seq, True
            if isinstance(s, ast.Expr) and isinstance(s.value, ast.Call):
                if self.touches(s, buf):
                    seq += self.w_call(s.value, f, buf, subst)
                continue
            if isinstance(s, ast.If):
                if not self.touches(s, buf):
                    # pure computation of locals; but a branch might return/raise
                    if any(isinstance(n, (ast.Return, ast.Continue)) for n in ast.walk(s)):
                        # `if <filter>: continue` handled by the loop extractor
                        seq.append(("FILTER", norm(s.test), any(isinstance(n, ast.Continue) for n in ast.walk(s))))
                    continue
                dead = self.dead_test(s.test, subst)
                if dead is False:  # statically impossible for this argument: only the else side
                    b, br = self.w_block(s.orelse, f, buf, subst)
                    seq += b
                    if br:
                        return seq, True
                    continue
                if dead is True:
                    a, ar = self.w_block(s.body, f, buf, subst)
                    seq += a
                    if ar:
                        return seq, True
                    continue
                a, ar = self.w_block(s.body, f, buf, subst)
                b, br = self.w_block(s.orelse, f, buf, subst)
                seq.append(("IF", norm(s.test), a, ar, b, br))
                continue
            if isinstance(s, (ast.For,)):
                if not self.touches(s, buf):
                    continue
                body, _ = self.w_block(s.body, f, buf, self.loop_subst(s, f, subst))
                seq.append(("FOR", norm(s.iter), self.w_label(s.iter, subst), body))
                continue
            if isinstance(s, ast.Assert) and isinstance(s.test, ast.Constant) and s.test.value is False:
                seq.append(("FAIL",))
                return seq, True
            if isinstance(s, (ast.Assign, ast.AnnAssign, ast.AugAssign, ast.Assert, ast.Pass, ast.Import, ast.ImportFrom)):
                if self.touches(s, buf):
                    raise AnalysisError(f"{f.qualname}:{s.lineno}: assignment touches the buffer in a writer: {norm(s)[:60]}")
                continue
            if isinstance(s, (ast.With, ast.Try)):
                inner, r = self.w_block(s.body, f, buf, subst)
                seq += inner
                if r:
                    return seq, True
                continue
            if isinstance(s, (ast.Raise, ast.Continue)):
                continue
            if self.touches(s, buf):
                raise AnalysisError(f"{f.qualname}:{s.lineno}: unrecognised statement in a serializer: {type(s).__name__}")
        return seq, False

    def loop_subst(self, s: ast.For, f: FuncInfo, subst: dict) -> dict:
        out = dict(subst)
        et = self.elem_classes(s.iter, f, subst)
        base_label = self.w_label(s.iter, subst)
        def names_of(t):
            if isinstance(t, ast.Name):
                return [t]
            return [x for e in getattr(t, "elts", []) for x in names_of(e)]
        for n in names_of(s.target):
            out[n.id] = {"label": f"{base_label}[]", "types": et if isinstance(s.target, ast.Name) else None, "elem_types": None}
        if not isinstance(s.target, ast.Name):
            # tuple targets: static classes of the components come from the resolver's own binding
            pass
        # `value = self[key]` style aliases inside the loop body keep the collection's element type
        for st in s.body:
            if isinstance(st, ast.Assign) and isinstance(st.targets[0], ast.Name) and isinstance(st.value, ast.Subscript):
                base = st.value.value
                vt = None
                if isinstance(base, ast.Name) and base.id in subst and subst[base.id].get("elem_types"):
                    vt = subst[base.id]["elem_types"]
                else:
                    t = self.R.type_of(base, f)
                    if t and t[0] == "dict":
                        vt = [self.ix.classes[x[1]] for x in members(t[2]) if x[0] == "cls" and x[1] in self.ix.classes] or None
                    elif t and t[0] == "cls" and t[1] in self.ix.classes:
                        ci = self.ix.classes[t[1]]
                        for b in ci.base_exprs:
                            bt = self.R.ann(ci.module, b, ci)
                            if bt and bt[0] == "dict":
                                vt = [self.ix.classes[x[1]] for x in members(bt[2]) if x[0] == "cls" and x[1] in self.ix.classes] or None
                out[st.targets[0].id] = {"label": f"{self.w_label(base, subst)}[]", "types": vt, "elem_types": None}
        return out

    # ------------------------------------------------------------------ reader

    def read_term(self, f: FuncInfo, tag_given: bool = False) -> list:
        q = f.qualname
        if q in self._active:
            return [("REC", f.name)]
        self._active.append(q)
        try:
            buf = self.buf_param(f)
            self._tagparam = None
            tp = [a.arg for a in f.params if a.arg == "tag"]
            seq, _ = self.r_block(f.node.body, f, buf, tp[0] if tp else None, tag_given)
            return self.canon(seq)
        finally:
            self._active.pop()

    def r_expr(self, e: ast.expr, f: FuncInfo, buf: str, dest: str) -> list:
        """Raw items for the reads performed by evaluating e, in evaluation order."""
        if e is None or not self.touches(e, buf):
            return []
        if isinstance(e, ast.Call):
            fn = e.func
            name = fn.attr if isinstance(fn, ast.Attribute) else getattr(fn, "id", "")
            args = list(e.args)
            direct = bool(args) and isinstance(args[0], ast.Name) and args[0].id == buf
            if direct:
                if name == "read_tag":
                    return [("RT", None)]
                if name in PRIM_R:
                    return [("P", PRIM_R[name], dest)]
                if name == "read_bool":
                    return [("BOOL", dest)]
                if name == "read_flags":
                    n = None
                    for k in e.keywords:
                        if k.arg == "num_flags" and isinstance(k.value, ast.Constant):
                            n = k.value.value
                    if n is None and len(args) > 1 and isinstance(args[1], ast.Constant):
                        n = args[1].value
                    return [("FLAGS_R", n, dest)]
                if name in OPAQUE_READERS:
                    return [("AXIOM", name)]
                # classmethod X.read(data ...)
                if isinstance(fn, ast.Attribute) and name == "read":
                    r = self.ix.resolve_expr_static(f.module, fn.value)
                    if r is None:
                        t = self.R.type_of(fn.value, f)
                        r = ("class", self.ix.classes[t[1]]) if t and t[0] == "classref" and t[1] in self.ix.classes else None
                    if r is None and isinstance(fn.value, ast.Name) and fn.value.id == "cls" and f.cls is not None:
                        r = ("class", f.cls)
                    if r is None or r[0] != "class":
                        raise AnalysisError(f"{f.qualname}:{e.lineno}: receiver of .read(...) is not a known class: {norm(fn.value)}")
                    extra = [x for a in args[1:] for x in self.r_expr(a, f, buf, dest)]
                    return extra + [("BODY", r[1].qualname, dest)]
                g = self.resolve_callee(f, e)
                if g is None or not self.is_buf_func(g):
                    raise AnalysisError(f"{f.qualname}:{e.lineno}: unknown reader call {norm(e.func)}")
                # a tag handed over: read_type(data, tag)
                tag_arg = None
                gp = [a.arg for a in g.params]
                for i, a in enumerate(args[1:], start=1):
                    if i < len(gp) and gp[i] == "tag":
                        tag_arg = a
                for k in e.keywords:
                    if k.arg == "tag":
                        tag_arg = k.value
                pre = []
                for a in args[1:]:
                    if a is not tag_arg:
                        pre += self.r_expr(a, f, buf, dest)
                if g.qualname in self._active:
                    return pre + [("REC", g.name.replace("read_", ""))]
                inner = self.relabel(close(self.read_term(g, tag_given=tag_arg is not None)), dest)
                if tag_arg is not None:
                    tv = tag_arg.id if isinstance(tag_arg, ast.Name) else None
                    if isinstance(tag_arg, ast.Call) and norm(tag_arg.func).split(".")[-1] == "read_tag":
                        return pre + [("RT", None), ("DISPATCH", None, inner)]
                    return pre + [("DISPATCH", tv, inner)]
                return pre + inner
            # other call: constructor / wrapper — evaluate args left to right, keywords after
            items = []
            params = None
            ci = None
            r = self.ix.resolve_expr_static(f.module, fn) if isinstance(fn, (ast.Name, ast.Attribute)) else None
            if isinstance(fn, ast.Name) and fn.id == "cls" and f.cls is not None:
                r = ("class", f.cls)
            if r is not None and r[0] == "class":
                ci = r[1]
                init = ci.lookup_method("__init__")
                if init is not None:
                    params = [a.arg for a in init.params][1:]
            elif isinstance(fn, ast.Attribute) and isinstance(fn.value, ast.Name):
                rr = self.ix.resolve_expr_static(f.module, fn.value)
                if rr is not None and rr[0] == "class":
                    m = rr[1].lookup_method(fn.attr)
                    if m is not None:
                        ci = rr[1]
                        static = any(isinstance(d, ast.Name) and d.id == "staticmethod" for d in m.node.decorator_list)
                        params = [a.arg for a in m.params][0 if static else 1 :]
            if isinstance(fn, ast.Attribute) and self.touches(fn.value, buf):
                items += self.r_expr(fn.value, f, buf, dest)
            for i, a in enumerate(args):
                d = dest
                if params is not None and i < len(params) and not isinstance(a, ast.Starred):
                    d = self.param_attr(ci, params[i])
                items += self.r_expr(a, f, buf, d)
            for k in e.keywords:
                d = self.param_attr(ci, k.arg) if (ci is not None and k.arg) else (k.arg or dest)
                items += self.r_expr(k.value, f, buf, d)
            return items
        if isinstance(e, (ast.ListComp, ast.SetComp, ast.GeneratorExp, ast.DictComp)):
            if len(e.generators) != 1:
                raise AnalysisError(f"{f.qualname}:{e.lineno}: multi-generator comprehension in a reader")
            g0 = e.generators[0]
            if self.touches(g0.iter, buf) and not (isinstance(g0.iter, ast.Call) and isinstance(g0.iter.func, ast.Name) and g0.iter.func.id == "range"):
                # [f(x) for x in read_int_list(data)]: the iterable is read completely first
                body_touch = self.touches(e.elt, buf) if not isinstance(e, ast.DictComp) else (self.touches(e.key, buf) or self.touches(e.value, buf))
                if body_touch:
                    raise AnalysisError(f"{f.qualname}:{e.lineno}: comprehension reads the buffer both in its iterable and its element")
                return self.r_expr(g0.iter, f, buf, dest)
            head = self.r_range(g0.iter, f, buf)
            body = []
            if isinstance(e, ast.DictComp):
                body += self.r_expr(e.key, f, buf, dest + "{key}") + self.r_expr(e.value, f, buf, dest + "{value}")
            else:
                body += self.r_expr(e.elt, f, buf, dest + "[]")
            return [("RLOOP", head, body, dest)]
        if isinstance(e, ast.NamedExpr):
            inner = self.r_expr(e.value, f, buf, "$" + e.target.id)
            if inner == [("RT", None)]:
                return [("RT", e.target.id)]
            return inner
        if isinstance(e, ast.Compare) and len(e.ops) == 1:
            l, r = e.left, e.comparators[0]
            li = self.r_expr(l, f, buf, dest)
            if li and li[-1][0] == "RT" and isinstance(e.ops[0], ast.Eq) and not self.touches(r, buf):
                # read_tag(data) == K  (only meaningful inside assert; handled by caller)
                return li[:-1] + [("RTEQ", li[-1][1], self.tag_name(f, r))]
            if li and li[-1][0] == "RT" and isinstance(e.ops[0], ast.NotEq) and not self.touches(r, buf):
                return li[:-1] + [("RTNE", li[-1][1], self.tag_name(f, r))]
            return li + self.r_expr(r, f, buf, dest)
        items = []
        if isinstance(e, ast.Dict):
            for k, v in zip(e.keys, e.values):
                if k is not None:
                    items += self.r_expr(k, f, buf, dest)
                items += self.r_expr(v, f, buf, dest)
            return items
        if isinstance(e, ast.IfExp):
            if self.touches(e.body, buf) or self.touches(e.orelse, buf):
                t = self.r_expr(e.test, f, buf, dest)
                if len(t) == 1 and t[0][0] == "BOOL" and isinstance(e.test, ast.Call):
                    return [("ALT", {"LITERAL_TRUE": (self.canon(self.r_expr(e.body, f, buf, dest)), False), "LITERAL_FALSE": (self.canon(self.r_expr(e.orelse, f, buf, dest)), False)})]
                raise AnalysisError(f"{f.qualname}:{e.lineno}: conditional expression whose arms read the buffer")
            return self.r_expr(e.test, f, buf, dest)
        for c in ast.iter_child_nodes(e):
            if isinstance(c, ast.expr):
                items += self.r_expr(c, f, buf, dest)
        return items

    def param_attr(self, ci: ClassInfo, pname: str) -> str:
        """Attribute a constructor parameter ends up in (self.attr = pname), else the parameter name."""
        init = ci.lookup_method("__init__")
        if init is not None:
            for n in ast.walk(init.node):
                if isinstance(n, (ast.Assign, ast.AnnAssign)):
                    val = n.value
                    tgts = n.targets if isinstance(n, ast.Assign) else [n.target]
                    if isinstance(val, ast.Name) and val.id == pname:
                        for t in tgts:
                            if isinstance(t, ast.Attribute) and norm(t.value) == "self":
                                return t.attr
            # passed on to super().__init__(..., pname, ...)
            for n in ast.walk(init.node):
                if isinstance(n, ast.Call) and isinstance(n.func, ast.Attribute) and n.func.attr == "__init__" and "super()" in norm(n.func.value):
                    for b in ci.mro()[1:]:
                        binit = b.methods.get("__init__")
                        if binit is None:
                            continue
                        bp = [a.arg for a in binit.params][1:]
                        for i, a in enumerate(n.args):
                            if isinstance(a, ast.Name) and a.id == pname and i < len(bp):
                                return self.param_attr(b, bp[i])
                        for k in n.keywords:
                            if isinstance(k.value, ast.Name) and k.value.id == pname and k.arg:
                                return self.param_attr(b, k.arg)
                        break
        return pname

    def r_range(self, it: ast.expr, f: FuncInfo, buf: str):
        """Loop header of a reader: ('count-inline',) when range(read_int_bare(data)), ('count-var', v) for range(v)."""
        if isinstance(it, ast.Call) and isinstance(it.func, ast.Name) and it.func.id == "range" and len(it.args) == 1:
            a = it.args[0]
            if isinstance(a, ast.Call) and norm(a.func).split(".")[-1] == "read_int_bare":
                return ("inline",)
            if isinstance(a, ast.Name):
                return ("var", a.id)
        raise AnalysisError(f"{f.qualname}:{it.lineno}: loop in a reader does not range over a count read from the buffer: {norm(it)[:50]}")

    def tgt_label(self, t: ast.expr) -> str:
        if isinstance(t, ast.Attribute):
            return t.attr
        if isinstance(t, ast.Name):
            return "$" + t.id
        if isinstance(t, ast.Subscript):
            return root_label(t.value) + "[]"
        return norm(t)[:30]

    def r_block(self, stmts, f: FuncInfo, buf: str, tagparam: str | None, tag_given: bool):
        seq: list = []
        for s in stmts:
            if isinstance(s, ast.Expr) and isinstance(s.value, ast.Constant):
                continue
            if isinstance(s, ast.Return):
                seq += self.r_expr(s.value, f, buf, "RET")
                seq.append(("RETURN",))
                return seq, True
            if isinstance(s, (ast.Assign, ast.AnnAssign)):
                val = s.value
                tgt = s.targets[0] if isinstance(s, ast.Assign) else s.target
                if val is None or not self.touches(val, buf):
                    continue
                if isinstance(tgt, ast.Tuple):
                    items = self.r_expr(val, f, buf, "TUPLE")
                    if len(items) == 1 and items[0][0] == "FLAGS_R":
                        labels = tuple(self.tgt_label(x) for x in tgt.elts)
                        seq.append(("FLAGS_R", items[0][1], labels))
                    else:
                        seq += items
                    continue
                dest = self.tgt_label(tgt)
                items = self.r_expr(val, f, buf, dest)
                if items == [("RT", None)] and isinstance(tgt, ast.Name):
                    items = [("RT", tgt.id)]
                if len(items) == 1 and items[0][0] == "P" and items[0][1] == "int_bare" and isinstance(tgt, ast.Name):
                    items = [("COUNT", tgt.id)]
                seq += items
                continue
            if isinstance(s, ast.Expr):
                if self.touches(s, buf):
                    v = s.value
                    # x.append(<reads>)
                    dest = "?"
                    if isinstance(v, ast.Call) and isinstance(v.func, ast.Attribute) and v.func.attr in ("append", "add"):
                        dest = root_label(v.func.value) + "[]"
                    seq += self.r_expr(v, f, buf, dest)
                continue
            if isinstance(s, ast.Assert):
                if not self.touches(s, buf):
                    # assert tag == K
                    t = s.test
                    if isinstance(t, ast.Compare) and isinstance(t.left, ast.Name) and len(t.ops) == 1 and isinstance(t.ops[0], ast.Eq):
                        seq.append(("AT", t.left.id, self.tag_name(f, t.comparators[0])))
                    elif isinstance(t, ast.Constant) and t.value is False:
                        seq.append(("FAIL",))
                    continue
                items = self.r_expr(s.test, f, buf, "ASSERT")
                if items and items[-1][0] == "RTEQ":
                    seq += items[:-1] + [T(items[-1][2])]
                else:
                    raise AnalysisError(f"{f.qualname}:{s.lineno}: unrecognised assert on the buffer: {norm(s.test)[:60]}")
                continue
            if isinstance(s, ast.If):
                test = s.test
                pre = self.r_expr(test, f, buf, "COND") if self.touches(test, buf) else []
                kind = None
                if pre and pre[-1][0] in ("RTEQ", "RTNE"):
                    v = pre[-1][1] or "<anon>"
                    seq += pre[:-1] + [("RT", v)]
                    kind = ("eq" if pre[-1][0] == "RTEQ" else "ne", v, pre[-1][2])
                elif pre == [("BOOL", "COND")] and isinstance(test, ast.Call):
                    a, ar = self.r_block(s.body, f, buf, tagparam, tag_given)
                    b, br = self.r_block(s.orelse, f, buf, tagparam, tag_given)
                    seq.append(("ALT", {"LITERAL_TRUE": (self.canon(a), ar), "LITERAL_FALSE": (self.canon(b), br)}))
                    continue
                elif pre:
                    # the condition reads a value and then tests it: reads first, then a value-dependent branch
                    seq += pre
                    a, ar = self.r_block(s.body, f, buf, tagparam, tag_given)
                    b, br = self.r_block(s.orelse, f, buf, tagparam, tag_given)
                    if a or b or ar or br:
                        seq.append(("IF", self.strip_walrus(test), a, ar, b, br))
                    continue
                else:
                    kind = self.tag_test(test, f)
                a, ar = self.r_block(s.body, f, buf, tagparam, tag_given)
                b, br = self.r_block(s.orelse, f, buf, tagparam, tag_given)
                if kind is None:
                    if tagparam and norm(test) == f"{tagparam} is None":
                        # `if tag is None: tag = read_tag(data)`
                        if not tag_given:
                            seq += [("RT", tagparam)] if a == [("RT", tagparam)] else a
                        continue
                    if not a and not b and not ar and not br:
                        continue
                    seq.append(("IF", norm(test), a, ar, b, br))
                else:
                    seq.append(("TIF", kind, a, ar, b, br))
                continue
            if isinstance(s, ast.For):
                if not self.touches(s, buf):
                    continue
                head = self.r_range(s.iter, f, buf)
                body, _ = self.r_block(s.body, f, buf, tagparam, tag_given)
                seq.append(("RLOOP", head, body, "loop"))
                continue
            if isinstance(s, ast.Try):
                inner, r = self.r_block(s.body, f, buf, tagparam, tag_given)
                seq += inner
                if r:
                    return seq, True
                continue
            if isinstance(s, (ast.Delete, ast.Pass, ast.AugAssign, ast.Import, ast.ImportFrom, ast.Raise)):
                if self.touches(s, buf):
                    raise AnalysisError(f"{f.qualname}:{s.lineno}: unrecognised statement on the buffer: {norm(s)[:60]}")
                continue
            if isinstance(s, ast.With):
                inner, r = self.r_block(s.body, f, buf, tagparam, tag_given)
                seq += inner
                if r:
                    return seq, True
                continue
            if self.touches(s, buf):
                raise AnalysisError(f"{f.qualname}:{s.lineno}: unrecognised statement in a deserializer: {type(s).__name__}")
        return seq, False

    def strip_walrus(self, test: ast.expr) -> str:
        class V(ast.NodeTransformer):
            def visit_NamedExpr(self, n):
                return n.target
        import copy
        return norm(V().visit(copy.deepcopy(test)))

    def tag_test(self, test: ast.expr, f: FuncInfo):
        if isinstance(test, ast.Compare) and len(test.ops) == 1 and isinstance(test.left, ast.Name) and test.left.id.startswith("tag"):
            if isinstance(test.ops[0], ast.Eq):
                return ("eq", test.left.id, self.tag_name(f, test.comparators[0]))
            if isinstance(test.ops[0], ast.NotEq):
                return ("ne", test.left.id, self.tag_name(f, test.comparators[0]))
        return None

    def relabel(self, seq, dest):
        """Replace the helper-local destinations (RET, locals of the helper) by the caller's destination."""
        def rl(l):
            if not isinstance(l, str):
                return l
            if l in ("?", "loop"):
                return dest
            if l.startswith("RET"):
                return dest + l[3:]
            if l.startswith("$"):
                # a local of the inlined helper: its value ends up in the helper's result
                suffix = ""
                for mark in ("[]", "{key}", "{value}"):
                    if l.endswith(mark):
                        suffix = mark
                return dest + suffix
            return l
        out = []
        for it in seq:
            if it[0] in ("P",):
                out.append(("P", it[1], rl(it[2])))
            elif it[0] == "BOOL":
                out.append(("BOOL", rl(it[1])))
            elif it[0] == "BODY":
                out.append(("BODY", it[1], rl(it[2])))
            elif it[0] == "ALT":
                out.append(("ALT", {k: (self.relabel(s, dest), r) for k, (s, r) in it[1].items()}))
            elif it[0] == "LOOP":
                out.append(("LOOP", self.relabel(it[1], dest), rl(it[2])) + tuple(it[3:]))
            elif it[0] == "COND":
                out.append(("COND", it[1], self.relabel(it[2], dest), self.relabel(it[3], dest)))
            else:
                out.append(it)
        return out

    def local_destination(self, f: FuncInfo, name: str, depth: int = 0) -> str | None:
        """Where the value of reader-local `name` ends up: attribute assigned from it, or the attribute
        of the constructor parameter it is passed as."""
        if depth > 4:
            return None
        for n in ast.walk(f.node):
            if isinstance(n, ast.Call):
                r = self.ix.resolve_expr_static(f.module, n.func) if isinstance(n.func, (ast.Name, ast.Attribute)) else None
                if isinstance(n.func, ast.Name) and n.func.id == "cls" and f.cls is not None:
                    r = ("class", f.cls)
                if isinstance(n.func, ast.Attribute) and isinstance(n.func.value, ast.Name) and r is None:
                    # Cls.make_normalized(...) style alternative constructors
                    rr = self.ix.resolve_expr_static(f.module, n.func.value)
                    if rr is not None and rr[0] == "class":
                        m = rr[1].lookup_method(n.func.attr)
                        if m is not None:
                            ps = [a.arg for a in m.params][1:]
                            for i, a in enumerate(n.args):
                                if mentions(a, name) and i < len(ps):
                                    return self.param_attr(rr[1], ps[i])
                            for k in n.keywords:
                                if mentions(k.value, name) and k.arg:
                                    return self.param_attr(rr[1], k.arg)
                if r is not None and r[0] == "class":
                    init = r[1].lookup_method("__init__")
                    ps = [a.arg for a in init.params][1:] if init else []
                    for i, a in enumerate(n.args):
                        if mentions(a, name) and i < len(ps):
                            return self.param_attr(r[1], ps[i])
                    for k in n.keywords:
                        if mentions(k.value, name) and k.arg:
                            return self.param_attr(r[1], k.arg)
        for n in ast.walk(f.node):
            if isinstance(n, ast.Assign) and mentions(n.value, name):
                t = n.targets[0]
                if isinstance(t, ast.Attribute):
                    return t.attr
                if isinstance(t, ast.Subscript) and isinstance(t.slice, ast.Constant):
                    return repr(t.slice.value)
                if isinstance(t, ast.Name) and t.id != name:
                    d = self.local_destination(f, t.id, depth + 1)
                    if d:
                        return d
        return None

    # ------------------------------------------------------------------ canonical form

    def canon(self, raw: list) -> list:
        """Raw writer/reader items -> canonical Seq (see module docstring)."""
        out: list = []
        i = 0
        n = len(raw)
        while i < n:
            it = raw[i]
            i += 1
            k = it[0]
            if k in ("T", "P", "BOOL", "BODY", "REC", "AXIOM", "ALT", "LOOP", "COND", "FLAGS"):
                if k == "ALT":
                    it = ("ALT", {kk: (self.canon(s), r) for kk, (s, r) in it[1].items()})
                out.append(it)
                continue
            if k == "FLAGS_R":
                out.append(("FLAGS", it[2] if isinstance(it[2], tuple) else ("?",) * (it[1] or 0), it[1]))
                continue
            if k == "RETURN":
                continue
            if k == "FAIL":
                out.append(("FAIL",))
                continue
            if k == "FILTER":
                out.append(it)
                continue
            if k == "COUNT":
                # size = read_int_bare(data) ... for _ in range(size)
                j = i
                found = False
                while j < n:
                    nx = raw[j]
                    if nx[0] == "RLOOP" and nx[1] == ("var", it[1]):
                        found = True
                        break
                    if nx[0] == "RETURN" or (nx[0] in ("T", "P", "BOOL", "BODY", "RT")):
                        break
                    j += 1
                if not found:
                    out.append(("P", "int_bare", "$" + it[1]))
                    continue
                out.append(("LOOP", self.canon(raw[j][2]), raw[j][3], None))
                raw = raw[:j] + raw[j + 1 :]
                n = len(raw)
                continue
            if k == "RLOOP":
                if it[1] == ("inline",):
                    out.append(("LOOP", self.canon(it[2]), it[3], None))
                    continue
                raise AnalysisError(f"reader loop over range({it[1][1]}) without a preceding count read")
            if k == "FOR":
                # writer: preceding item must be the count P(int_bare, len(<same collection>))
                body = list(it[3])
                filt = None
                if body and body[0][0] == "FILTER" and body[0][2]:
                    filt = body[0][1]
                    body = body[1:]
                cbody = self.canon(body)
                if out and out[-1][0] == "P" and out[-1][1] == "int_bare":
                    cnt = out.pop()
                    out.append(("LOOP", cbody, it[2], filt, cnt[2], it[1]))
                else:
                    raise AnalysisError(f"writer loop over {it[1]} is not preceded by its element count")
                continue
            if k == "IF":
                _, test, a, ar, b, br = it
                ca, cb = self.canon(a), self.canon(b)
                rest = raw[i:]
                fa, fb = ca == [("FAIL",)], cb == [("FAIL",)]
                if fa or fb:
                    # `else: assert False`: the other side is the only possibility
                    side = cb if fa else ca
                    if self.first_keys(side) is not None:
                        branches = {}
                        self.add_branch(branches, side, br if fa else ar)
                        out.append(("ALT", branches))
                    else:
                        out += side
                    if (br if fa else ar):
                        return out
                    continue
                ka, kb = self.first_keys(ca), self.first_keys(cb)
                if ka is not None and kb is not None and (ca or cb):
                    # tag-keyed choice
                    branches = {}
                    self.add_branch(branches, ca, ar)
                    self.add_branch(branches, cb, br)
                    out.append(("ALT", branches))
                elif (ka is not None and not cb and not br) or (kb is not None and not ca and not ar):
                    # one-sided, returning branch followed by the rest as the other branch
                    side, sr = (ca, ar) if ka is not None else (cb, br)
                    if sr:
                        crest = self.canon(rest)
                        if self.first_keys(crest) is None:
                            raise AnalysisError(f"writer branch `{test}` returns but the fall-through does not start with a tag")
                        branches = {}
                        self.add_branch(branches, side, True)
                        self.add_branch(branches, crest, False)
                        out.append(("ALT", branches))
                        return out
                    out.append(("COND", test if ka is not None else f"not ({test})", side, []))
                else:
                    out.append(("COND", test, ca, cb))
                if ar and br:
                    return out
                continue
            if k == "RT":
                var = it[1]
                alt, consumed, done = self.dispatch(var, raw[i:])
                out.append(alt)
                if done:
                    return out
                i += consumed
                continue
            if k == "DISPATCH":
                # tag already in hand (parameter)
                out += self.canon(it[2])
                continue
            if k == "TIF":
                # dispatch on a tag handed in as parameter (no RT in this function)
                alt, consumed, done = self.dispatch(it[1][1], raw[i - 1 :])
                out.append(alt)
                if done:
                    return out
                i += consumed - 1
                continue
            if k == "AT":
                # assertion on an already dispatched tag: narrows nothing new
                continue
            raise AnalysisError(f"canon: unexpected raw item {it[0]}")
        return out

    def first_keys(self, seq):
        """Tags a canonical sequence may start with: list of keys, or None if it does not start with a tag."""
        if not seq:
            return None
        it = seq[0]
        if it[0] == "T":
            return [it[1]]
        if it[0] == "BOOL":
            return ["LITERAL_FALSE", "LITERAL_TRUE"]
        if it[0] == "ALT":
            return list(it[1])
        if it[0] == "REC":
            return ["*"]
        return None

    def add_branch(self, branches: dict, seq, returns: bool) -> None:
        if not seq:
            raise AnalysisError("empty branch in a tag-keyed choice")
        it = seq[0]
        if it[0] == "T":
            self._put(branches, it[1], (seq[1:], returns))
        elif it[0] == "BOOL":
            self._put(branches, "LITERAL_FALSE", (seq[1:], returns))
            self._put(branches, "LITERAL_TRUE", (seq[1:], returns))
        elif it[0] == "ALT":
            for k, (s, r) in it[1].items():
                self._put(branches, k, (s + ([] if r else seq[1:]), r or returns))
        elif it[0] == "REC":
            self._put(branches, "*", (seq, returns))
        else:
            raise AnalysisError(f"branch does not start with a tag: {it}")

    def _put(self, branches, k, v):
        if k in branches and branches[k] != v:
            raise AnalysisError(f"two branches of one choice start with the same tag {k}")
        branches[k] = v

    def dispatch(self, var, rest: list):
        """Build the ALT that follows reading a tag into `var`.  Returns (alt item, raw items consumed, finished)."""
        branches: dict = {}
        i = 0
        n = len(rest)
        while i < n:
            it = rest[i]
            if it[0] == "TIF" and it[1][1] == var:
                _, (op, _, K), a, ar, b, br = it
                i += 1
                if op == "eq":
                    self._put(branches, K, (self.canon(a), ar))
                    if b and not any(x[0] in ("TIF", "AT", "DISPATCH") and (x[1] == var or (x[0] == "TIF" and x[1][1] == var)) for x in b):
                        self._put(branches, "*", (self.canon(b), br))
                        if ar and br:
                            return ("ALT", branches), i, True
                        return ("ALT", branches), i, False
                    if b or br:
                        # elif / else chain
                        sub, _, _ = self.dispatch(var, b) if b else (("ALT", {}), 0, True)
                        if b and sub[0] == "ALT":
                            for k2, v2 in sub[1].items():
                                self._put(branches, k2, (v2[0], v2[1] and br))
                        if ar and br:
                            return ("ALT", branches), i, True
                    continue
                else:  # ne K: body handles every other tag, K itself falls through (usually LITERAL_NONE)
                    body = list(a)
                    if body and body[0][0] == "AT" and body[0][1] == var:
                        self._put(branches, body[0][2], (self.canon(body[1:]), ar))
                    elif body and body[0][0] == "DISPATCH" and body[0][1] == var:
                        cb = self.canon(list(body[0][2]) + body[1:])
                        if cb and cb[0][0] == "ALT":
                            for k2, (s2, r2) in cb[0][1].items():
                                if k2 != K:
                                    self._put(branches, k2, (s2 + ([] if r2 else cb[1:]), ar))
                        else:
                            self._put(branches, "*", (cb, ar))
                    else:
                        cb = self.canon(body)
                        self._put(branches, "*", (cb, ar))
                    self._put(branches, K, (self.canon(b), br))
                    return ("ALT", branches), i, False
            ends = bool(rest) and rest[-1][0] == "RETURN"
            if it[0] == "AT" and it[1] == var:
                # everything after (in this block) belongs to this tag
                tail = self.canon(rest[i + 1 :])
                self._put(branches, it[2], (tail, ends))
                return ("ALT", branches), n, ends
            if it[0] == "DISPATCH" and it[1] == var:
                tail = self.canon(list(it[2]) + rest[i + 1 :])
                if tail and tail[0][0] == "ALT":
                    for k2, (s2, r2) in tail[0][1].items():
                        self._put(branches, k2, (s2 + ([] if r2 else tail[1:]), ends))
                else:
                    self._put(branches, "*", (tail, ends))
                return ("ALT", branches), n, ends
            if it[0] == "FAIL":
                return ("ALT", branches), n, True
            if it[0] == "RETURN":
                i += 1
                continue
            # anything else: the rest uses the tag implicitly (e.g. stored for lazy decoding)
            if not branches:
                raise AnalysisError(f"tag read into `{var}` is not followed by a dispatch on it (next item {it[0]})")
            # fall-through of a chain of `if tag == K` tests: implicit default
            if all(r for _, r in branches.values()):
                tail = self.canon(rest[i:])
                self._put(branches, "*", (tail, ends))
                return ("ALT", branches), n, ends
            return ("ALT", branches), i, False
        return ("ALT", branches), n, bool(rest) and rest[-1][0] == "RETURN"


def mentions(e: ast.AST, name: str) -> bool:
    return any(isinstance(x, ast.Name) and x.id == name for x in ast.walk(e))


def close(seq: list) -> list:
    """Closed form of a helper's term for inlining: the items after a choice are folded into its
    non-returning branches and every `returns` flag is cleared (a return inside a helper ends the
    helper, not its caller)."""
    out = []
    for i, it in enumerate(seq):
        if it[0] == "ALT":
            rest = seq[i + 1 :]
            br = {}
            for k, (s2, r) in it[1].items():
                br[k] = (close(s2 + ([] if r else rest)), False)
            out.append(("ALT", br))
            return out
        if it[0] == "COND":
            out.append(("COND", it[1], close(it[2]), close(it[3])))
        elif it[0] == "LOOP":
            out.append(("LOOP", close(it[1])) + tuple(it[2:]))
        else:
            out.append(it)
    return out


# ---------------------------------------------------------------------- comparison

def norm_label(l: str) -> str:
    """Normalise a data label: drop leading underscores and container markers, `RET`/locals kept."""
    l = l.replace("[]", "").replace("{key}", "").replace("{value}", "")
    parts = [p.lstrip("_") for p in l.split(".")]
    return ".".join(parts)


class Mismatch(Exception):
    pass


def compare(w: list, r: list, path: str, diffs: list, labels: list, stats: dict, w_subset: bool = True) -> None:
    """Structural comparison of a writer term and a reader term.  Appends human-readable
    differences to `diffs`; label pairs to `labels` [(path, wlabel, rlabel)]."""
    i = j = 0
    while i < len(w) or j < len(r):
        if i >= len(w) or j >= len(r):
            a = w[i] if i < len(w) else None
            b = r[j] if j < len(r) else None
            if a is not None and a[0] == "FAIL":
                i += 1
                continue
            if b is not None and b[0] == "FAIL":
                j += 1
                continue
            diffs.append(f"{path}: writer {'emits ' + brief(a) if a else 'stops'} where reader {'expects ' + brief(b) if b else 'stops'}")
            return
        a, b = w[i], r[j]
        stats["items"] = stats.get("items", 0) + 1
        if a[0] != b[0]:
            # BOOL on one side vs ALT{FALSE, TRUE} on the other
            if a[0] == "BOOL" and b[0] == "ALT" and set(b[1]) >= {"LITERAL_FALSE", "LITERAL_TRUE"}:
                i += 1
                j += 1
                continue
            diffs.append(f"{path}[{i}]: writer emits {brief(a)} where reader expects {brief(b)}")
            return
        k = a[0]
        if k == "T":
            if a[1] != b[1]:
                diffs.append(f"{path}[{i}]: tag {a[1]} written, {b[1]} expected")
                return
        elif k == "P":
            if a[1] != b[1]:
                diffs.append(f"{path}[{i}]: primitive {a[1]} ({a[2]}) written, {b[1]} ({b[2]}) read")
                return
            labels.append((f"{path}[{i}]", a[2], b[2], a[1]))
        elif k == "BOOL":
            labels.append((f"{path}[{i}]", a[1], b[1], "bool"))
        elif k == "BODY":
            if a[1] != b[1]:
                diffs.append(f"{path}[{i}]: record of {a[1]} written ({a[2]}), {b[1]} read ({b[2]})")
                return
            labels.append((f"{path}[{i}]", a[2], b[2], "obj"))
        elif k == "FLAGS":
            wl, rl = a[1], b[1]
            rn = b[2] if len(b) > 2 else len(rl)
            if len(wl) != rn or len(wl) != len(rl):
                diffs.append(f"{path}[{i}]: {len(wl)} flags written {list(wl)}, num_flags={rn} / {len(rl)} targets read {list(rl)}")
                return
            for x, y in zip(wl, rl):
                labels.append((f"{path}[{i}].flags", x, y, "flag"))
        elif k == "REC":
            if a[1] != b[1]:
                diffs.append(f"{path}[{i}]: recursive helper {a[1]} vs {b[1]}")
                return
        elif k == "AXIOM":
            pass
        elif k == "LOOP":
            compare(a[1], b[1], f"{path}[{i}].loop", diffs, labels, stats)
            labels.append((f"{path}[{i}].loop", a[2], b[2], "loop"))
        elif k == "COND":
            if normalize_test(a[1]) != normalize_test(b[1]):
                diffs.append(f"{path}[{i}]: writer branches on `{a[1]}`, reader on `{b[1]}`")
                return
            compare(a[2], b[2], f"{path}[{i}].then", diffs, labels, stats)
            compare(a[3], b[3], f"{path}[{i}].else", diffs, labels, stats)
        elif k == "ALT":
            wa, ra = a[1], b[1]
            any_continue = False
            for key, (ws, wr) in wa.items():
                if key in ra:
                    rs, rr = ra[key]
                elif "*" in ra:
                    rs, rr = ra["*"]
                    # default branch: reader consumes the tagged object opaquely or via a dispatcher
                    if rs and rs[0][0] == "AXIOM":
                        stats["axiom_branches"] = stats.get("axiom_branches", 0) + 1
                        any_continue = any_continue or not (wr and rr)
                        continue
                    if rs and rs[0][0] == "ALT" and key in rs[0][1]:
                        rs, rr = rs[0][1][key][0] + rs[1:], rr
                else:
                    diffs.append(f"{path}[{i}]: writer may emit tag {key} which the reader does not handle (reader handles {sorted(ra)})")
                    continue
                if wr == rr:
                    compare(ws, rs, f"{path}[{i}].{key}", diffs, labels, stats)
                    any_continue = any_continue or not wr
                else:
                    compare(ws + ([] if wr else w[i + 1 :]), rs + ([] if rr else r[j + 1 :]), f"{path}[{i}].{key}", diffs, labels, stats)
            extra = set(ra) - set(wa) - {"*"}
            if extra:
                stats.setdefault("reader_only_tags", []).append((f"{path}[{i}]", sorted(extra)))
            if not any_continue:
                return
        elif k == "FAIL":
            pass
        else:
            diffs.append(f"{path}[{i}]: cannot compare item kind {k}")
            return
        i += 1
        j += 1


def brief(it) -> str:
    if it is None:
        return "nothing"
    if it[0] == "ALT":
        return f"choice of tags {sorted(it[1])}"
    if it[0] == "LOOP":
        return f"counted loop <{it[2]}>"
    if it[0] == "COND":
        return f"value-dependent branch `{it[1]}`"
    return " ".join(str(x) for x in it[:3])


def normalize_test(t: str) -> str:
    return t.replace("self.", "").replace("ret.", "").replace(" ", "")
