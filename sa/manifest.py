"""Generate /verif/MANIFEST.json from the registry below (run: /venv/bin/python -m sa.manifest)."""

from __future__ import annotations

import json
import os

VERIF = os.path.dirname(os.path.dirname(os.path.abspath(__file__)))

BASELINE_OFF = "cd /repo && /venv/bin/python -m pytest -ra -q -p no:cacheprovider --timeout=900 --continue-on-collection-errors"

LEVEL_TEXT = (
    "Static structural rules {rules} decide the named clauses of the property on every matching construct of /repo's "
    "current tree ({what}). Each clause is a necessary condition of the behaviour; the behavioural statement as a "
    "whole (a quantification over {quant}) is not decided."
)

CHECKS = {
    "C02": dict(
        rules="R02.1-R02.22, R11.11",
        what="every accepting return of find_cache_meta/validate_meta is dominated by a rejecting gate for each required meta field (or its named bypass); SCC freshness is the conjunction of its three tests (truth-table evaluation); State.is_fresh conjuncts; cached errors of fresh modules are replayed; stored and compared values of each gate field come from the same producer; the indirect-dependency visitor reaches every type component; the fast path and the import-cycle path of transitive_dep_hash select and hash the same dependencies; protocol member types (inherited members, setter types) reach the indirect dependencies; the signature of an implicitly called dunder method is recorded for them (known finding); generic callee type variables (known finding); de-duplication scope vs cached lines (known finding); the plugins snapshot is replaced only after process_graph (CFG); only hashed dependencies count as existing when indirect dependencies are patched in; every `Metadata abandoned` test of find_cache_meta looks at the meta (one known finding: plugins); what the diagnosis of a missing import reads from the importing State has a stand-in in the cache record (R02.19; inline configuration: known finding); what FindModuleCache memoises for a module id does not depend on a per-call flag outside the key (R02.20); exist_added_packages recognises namespace packages (directories) as well as __init__ files (R02.21); a record is re-attached to a new path on a hash match only between files of the same kind, source or stub (R02.22)",
        quant="edit histories with a run after every edit, in four store x format configurations",
        technique="CFG must-pass-through with polarity, abstract (truth-table) evaluation of the freshness flag, producer cross-check, component-coverage matrix",
        note="That the gate set is *sufficient* for every edit history is the behavioural part and is not decided. The serializer quadruples of CacheMeta/CacheMetaEx/State are decided by C11 (R11.1-R11.4).",
        design="DESIGN.md §4 C02",
    ),
    "C03": dict(
        rules="R03.1-R03.17 (+R20.1 bound via C20)",
        what="order of the re-processing pipeline in reprocess_nodes and of the propagation loop; type snapshots read every __eq__ field; component-coverage matrix of the astmerge / deps / astdiff type visitors; the follow-imports walk queues every module found changed (never filtered by the set the finder marks); every daemon check response computes its status by main()'s predicate; list/set twin fields of a build State are written together; `not in` generates the __contains__ dependency; a partial re-check regenerates the ignore-comment diagnostics a whole-module update produces (two known findings); MRO walks in the dependency visitor add the member dependency for every base visited; protocol-dependency filters test module names; Var flags that decide member-access diagnostics are in the Var snapshot; relative imports are resolved against the containing module's id, not a target name, at every call in mypy/server (R03.18)",
        quant="edit histories checked after every step",
        technique="CFG must-pass-through ordering, sibling cross-check (__eq__ fields vs snapshot reads), component-coverage matrix",
        note="Completeness of deps.py dependency generation per construct and of symbol snapshots is semantic and not decided. tables/R03.2.json and R03.3.json list the read deviants; entries marked (unproven) are informational.",
        design="DESIGN.md §4 C03",
    ),
    "C04": dict(
        rules="R04.1-R04.13",
        what="atomic temporary+os.replace publication and OSError containment in the file store; every MetadataStore.write result checked; no CacheMeta after a failed data write/getmtime; data before meta, provenance of the meta pair, dep_hashes before the meta write, commit after every write group; old meta_ex invalidated before a new meta becomes durable; find_cache_meta treats a missing meta_ex as a miss; a module's records share one shard of the sqlite store (names differ only after the first dot of the basename, which is all the shard key reads); the data write is skipped only after the stored data record was read and compared; blocking errors reported by the build-wide cache writers after process_graph are raised before dispatch returns; a failing modifying statement of the sqlite store surfaces as the failure value / OSError that build.py's handlers expect (R04.11); every accepting return of validate_meta lies behind the data_mtime comparison (R04.12); the linking time stamp is not coarsened (known finding, R04.13)",
        quant="kill points and failing store operations",
        technique="CFG must-pass-through / reachability queries over the cache-writing functions, who-may-write rule",
        note="Behaviour of sqlite when killed inside commit() and OS-level durability are library/OS behaviour and are not decided. tables/R04.1.json, R04.2.json hold the tabled exceptions.",
        design="DESIGN.md §4 C04",
    ),
    "C05": dict(
        rules="R05.1-R05.22",
        what="every primitive bound to a literal C function name (~380 bindings) has a C declaration in mypyc/lib-rt of matching arity whose parameter/return types are ABI-compatible with the declared RPrimitives; declared error kinds agree with what the C body can return (ERR_NEVER vs `return NULL`, ERR_FALSE vs truth type, ERR_NEG_INT vs signed int; ERR_NEVER vs returning the result of a fallible callee); bindings made through helper functions and literal loops are resolved; in-place operators bound to in-place C APIs; the coerce truth table; the environment link of a nested function survives completion on a condition that consults only what the code following the link consults; result types without a spare error value never declare ERR_MAGIC; the defaults-setup chain searches the whole mro because the declaration is registered on an own-body test; a bound C function returns its error value only after a call that can have set an exception; an operator spelling is bound to the C function carrying that operator's word; loop-inlining specialisers translate the call's other arguments before the loop; pass order of compile_scc_to_ir; both try/finally lowerings reset the pending-return register on the non-return entries; lib-rt never passes an unchecked difference/parameter as a bytes size; sign tests on `index` parameters include 0 on the non-negative side; the str.encode/bytes.decode fast paths accept exactly CPython's aliases; a lazily created loop-carried register of an irbuild loop is created only while unset (R05.20); the value of a yield/await/yield-from expression is an op result, not the receiving register (R05.21); the loop generators keep their iterable/bounds in a place the body cannot assign (known finding, R05.22)",
        quant="programs x argument values x optimisation levels x build modes",
        technique="cross-language table check: Python AST of the primitive registry against clang's JSON AST of lib-rt; CFG ordering of the pass pipeline",
        note="Nothing about the translation of any construct is decided. Capsule-API slots (object-like macros) and conditionally compiled functions are only checked for existence. Borrow/steal agreement with C bodies would need an ownership analysis of C and is declined.",
        design="DESIGN.md §4 C05",
    ),
    "C06": dict(
        rules="R06.1-R06.25, R05.3",
        what="per-Op agreement of sources()/set_sources()/stolen() and PatchVisitor; borrow flag honoured by code generation; who may create IncRef/DecRef and which visit methods the post-refcount passes override; every emitter that initialises/traverses/clears/recycles instance storage covers the attributes of all classes in base_mro; memo keys of the exception transform; ERR_* exhaustiveness; definedness checks before every reading op; the two borrow-chain walks (lifetime scope, reassigned root) step through the same op kinds; a primitive's is_borrowed flag agrees with whether the bound C function takes a reference to a result it reads from a container slot / borrowing API; an argument declared stolen is given away on every exit of the C function (structured walk over clang's statement tree), and a function that gives a parameter away either owns it (declared stolen) or takes its own reference; the must-defined CFG has an unconditional edge to the handler of every normal successor; the generated constructor tests the failure value both calling conventions of __init__ produce; the definedness bitmap is cleared by `del`; attribute facts of __init__ are credited only to ops whose receiver is self; a stealing op that fails releases its operand (Cast: known finding); pass order of compile_scc_to_ir; conclusions from __init__ attribute facts respect the self-leak analysis, which looks for `self` in every operand-keeping op; lib-rt releases a replaced slot only after the store; glue code unboxes borrowed; preallocated comprehension results (known finding); refcount edge sets keep their side; classes whose compiled __new__/__del__ (own or a subclass's) run without a completed __init__ get no always-defined attributes; the spill pass takes a reference before storing a borrowed value in the environment; the items of a stolen tuple are unborrowed before a fallible op is emitted (known finding); lists obtained from Op.sources() are never written to (PrimitiveOp hands out its own list) (R06.25)",
        quant="function IR of all compiled programs, on every path",
        technique="sibling cross-check of the three declarations of each Op's operand set; who-may-create rule; CFG ordering of the pass pipeline; cross-language ownership check of the primitive registry against clang's AST of lib-rt (borrowed results, stolen arguments)",
        note="Reference-count balance of generated IR on every path needs the compiler to run on programs (translation validation by execution) and is not decided; the spill pass's balance argument is liveness-based and not decided.",
        design="DESIGN.md §4 C06",
    ),
    "C07": dict(
        rules="R07.1-R07.13",
        what="commit-before-reply in the worker for both phases; readiness gating by not_ready_count and interface-only done marking in the coordinator; agreement of the step sets of the sequential and the two-phase path; commit before the first broadcast; coordinator-side import errors recorded, shipped for every module of the batch and replayed by the worker; the options sent to workers keep the order of per-module config sections; build-wide BuildManager state that module processing adds to and build_inner reads after dispatch is returned by workers (known finding: missing_stub_packages); every State attribute write_cache puts into a meta reaches the worker-side State; the hide-after-many-errors state is per process (known finding); the line span of the unreachable rest of a top-level block that the implementation phase skips includes the block's last line (R07.13)",
        quant="schedules of batches over workers",
        technique="CFG must-pass-through queries, guard-chain (control dependence) checks, sibling cross-check of step sets",
        note="Nothing about real interleavings is decided; these are the orderings any schedule relies on. tables/R07.3.json holds the four explained step differences.",
        design="DESIGN.md §4 C07",
    ),
    "C13": dict(
        rules="R13.1-R13.18",
        what="blockers never reach the ignore logic; suppressed-by-ignore implies recorded-as-used, only for enabled codes, and nothing else records; decision order of is_error_code_enabled (explicit disable, explicit enable, parent disabled); who may append to the error map; exit status truth table over (message, non-note, blockers, install override) and its data-flow to sys.exit; generators of diagnostics that bypass is_error_code_enabled are guarded by their own code not being disabled (truth table over the guard's atoms); the only-once slot is claimed only by recorded messages; notes next to coded errors carry a code; the ErrorWatcher stack sees every error before any code/ignore decision; the line spans that decide where an ignore has effect and which ignores are exempt from the unused report include the last line of the node (R13.15); the Options attributes Errors.is_error_code_enabled reads are part of the cache key (R13.16); non-blocking diagnostics build.py reports on behalf of a State are filtered by that State's options (R13.17); both ignore-comment generators compute 'unused ignores are reported' from the same inputs (R13.18)",
        quant="programs x ignore placements x code selections",
        technique="CFG must-pass / reachability, guard chains, who-may-call, abstract evaluation of the exit-status assignments",
        note="Exactness of the delta for every program (origin spans, duplicate removal, note attachment) is value-level and not decided.",
        design="DESIGN.md §4 C13",
    ),
    "C08": dict(
        rules="R08.1-R08.10",
        what="every SubtypeContext flag, proper_subtype and state.strict_optional is a component of the subtype memo key; every context/global attribute read by the subtype visitor is keyed; lookups and records address the same entry with the same key and operands and the right polarity; hashed fields of every Type class are compared by __eq__; join/meet tuple siblings share their preamble; the subtype caches are written only by visit_instance and is_protocol_implementation, and in the latter only when the question-changing parameters (class_obj, skip) are excluded; protocol checks about a class object (TypeType item, instance type of a type object) pass class_obj=True; no positive cache entry is recorded while a co-inductive assumption is pending; hashed fields of types are assigned only on objects the same function created (type-checking-time modules); __eq__/__hash__ of Type subclasses compare components whole; no positive cache entry after a protocol assumption was relied on; join/meet unpack a protocol to its __call__ type only under a guard that holds for ['__call__'] alone (evaluated over sample member lists, R08.10)",
        quant="pairs and triples of types",
        technique="who-may-read rule over subtypes.py against the key tuple; sibling cross-check of lookup/record and of __hash__/__eq__",
        note="Reflexivity, transitivity, join/meet bounds and union simplification are value-level laws and are not decided. The unkeyed reads of options.extra_checks/strict_concatenate are tabled as informational (no failing input).",
        design="DESIGN.md §4 C08",
    ),
    "C14": dict(
        rules="R14.1-R14.14",
        what="both front ends can construct the same set of AST node classes; per node class the semantic attributes set at construction agree (branch-sensitive tracking); Errors.report clamps end positions before building ErrorInfo; every statement list that becomes a block went through overload merging in both front ends and the native shortcut rests on a monotone function counter; parse-time message_registry diagnostics of the default parser are reported by the native parser too; the two parsers of Arg(...) constructors report each diagnostic under the same tests; folded f-string text lands in a kept node; a diagnostic both front ends report under a count test is reported for the same counts; the shared parameter-list helpers (sharedparse.*, nodes.check_param_names) are applied by both front ends; the conditional-overload helpers of both front ends thread the overload name through their recursion; nativeparse uses a node's position only after read_loc() has read it (CFG, R14.13); registrations in Errors.ignored_files are re-evaluated after the inline configuration (R14.14)",
        quant="source files without type comments and their corruptions",
        technique="sibling cross-check of the two parser front ends over the resolved constructors; CFG must-pass for the position clamps",
        note="Equality of diagnostics between the parsers and columns lying inside the line are value-level and not decided.",
        design="DESIGN.md §4 C14",
    ),
    "C09": dict(
        rules="R09.0-R09.9",
        what="the options snapshot is computed from every name in OPTIONS_AFFECTING_CACHE; every Options attribute read in the RTA call-graph zone of the cached computation is keyed, keyed separately, not settable, or tabled; print-time options are not read while rendering cached tuples; cache directory derives from both components of python_version; the target options that decide suppression of an import are the ones dep_import_options records; nothing inside the build assigns attributes of Options objects and no private derived state survives apply_changes; ChainedPlugin's data-collecting methods consult every plugin; a module's plugin configuration data is hashed into its interface hash; with --shadow-file the file that is stat'ed, read and hashed for a module is the same one (R09.9)",
        quant="option toggles between runs",
        technique="who-may-read rule over an RTA call graph with annotation-driven receiver typing; constant evaluation of the key tables",
        note="Trusted: receiver typing and call resolution of sa/resolve.py + sa/callgraph.py (name-based fallback for unknown receivers); the ZONE_CUT list and tables/R09.1.json (each entry one construct with a reason). Assumes C02's gates reject on snapshot mismatch (checked by R02.1).",
        design="DESIGN.md §4 C09",
    ),
    "C10": dict(
        rules="R10.1-R10.8",
        what="every iteration over a set in mypy/ is consumed order-insensitively (recognised structurally) or individually tabled; every hash()/id()/urandom/time call site classified; every process-global mutable binding reset on the build entry path or tabled; a once-per-build slot is claimed only by a message that is then recorded; a plugin given by path is not taken from sys.modules when that entry came from another file; next(iter(x)) is applied only to containers ordered by construction (R10.8)",
        quant="hash seeds, file orders and preceding builds",
        technique="type-directed lint over the resolved program (set-typed iterables by annotation-driven typing), effect classification of loop bodies, reaching reset analysis from build.build",
        note="Independence of the diagnostics from file argument order is not decided. tables/R10.1.json marks sites whose order-insensitivity could not be established by reading as (unproven); they are informational.",
        design="DESIGN.md §4 C10",
    ),
    "C11": dict(
        rules="R11.1-R11.18",
        what="wire grammar of write equals wire grammar of read for 46 serializer classes and the helper pairs, down to librt primitives; field and flag label alignment; tag table integrity and dispatcher exhaustiveness; JSON key/attribute agreement and JSON==binary attribute sets; count/emit filter agreement; sorted iteration in interface serializers; order discipline (only sets may be written sorted); __eq__ fields and declared attributes covered by serialization; fix-up covers every by-reference field; optional fields are encoded by an identity test against None; the derived fields of a special alias are rebuilt together after load; verbatim JSON stores hold only JSON-representable declared types; what fix-up establishes on loaded functions a fresh analysis establishes too; every type TypeInfo's loaders re-create is handed to the type fixer; a conditionally written JSON key depends only on the attribute it stores (R11.18)",
        quant="symbols, types and flag combinations of all modules",
        technique="wire-grammar extraction (abstract interpretation of serializer bodies in evaluation order) and structural term comparison; sibling cross-checks",
        note="Trusted base: the librt.internal primitive pairs round-trip their argument; extract_symbol consumes one tagged object; CPython evaluation order. Value-level inverses (ARG_KINDS[int(x.value)], bytes.fromhex(x.hex())) are not decided. One known finding (symbol tables serialized in sorted order) is listed in known_findings.json.",
        design="DESIGN.md §4 C11",
    ),
    "C20": dict(
        rules="R20.1, R20.3-R20.20, R12.3, R20.2",
        what="every loop that re-queues deferred work has a per-iteration counter compared with a constant bound that leaves the loop; type-checker deferral limited by pass_num < last_pass; partial arithmetic operators of the constant folders guarded against every failure precondition; placeholder-triggered deferrals are conditional on not being in the final iteration (defer() asserts it); constant-valued index variables are range-checked against len() of the subscripted sequence; the guard before `assert add_symbol(...)` in push_type_args recognises every type-parameter node kind and rejected parameters are not returned; no branch reports an `internal error` message as its planned outcome; a saved list index accounts for later deletions; pop() on a set built in the function is dominated by a non-emptiness test; names from configuration are not unchecked keys of the error-code registry; Instance asserts after is_subtype come after the TypeVar/union/Any cases; Instance assertions on the content of an UnpackType follow the TypeVarTuple case (sibling majority, one tabled site; R20.18); checkpattern never asserts that the node of a captured name is a Var (R20.19); the target-count check of a multiple assignment never returns True after reporting an error (R20.20)",
        quant="input programs",
        technique="CFG cycle/must-pass queries for counter-bounded fix-points; guard-chain analysis of partial operators",
        note="Absence of crashes for all inputs is not decided; R20.2 is an inventory (evidence only).",
        design="DESIGN.md §4 C20",
    ),
    "C12": dict(
        rules="R12.1-R12.9",
        what="operator spelling vs operator applied in the constant folders and IR opcode selection; operator tables vs the language reference; guard completeness of every partial operator in mypy/constant_fold.py and mypyc/irbuild/constant_fold.py; argument-kind predicates of call binding; None-or-constant values of the compile-time evaluators are never tested by truthiness; a keyword or TypedDict key never binds to the *args formal of that name; the (*args, **kwargs) duplicate exemption consults the actual types; the and/or tables of infer_condition_value claim true/false only where Kleene's three-valued logic does (all 25 operand pairs evaluated, R12.9)",
        quant="signatures, class hierarchies and constant expressions",
        technique="syntax-directed guard-chain analysis and table comparison against the language reference",
        note="Trusted: the failure-precondition table for CPython arithmetic in sa/rules/c12.py. Call binding, MRO and version/platform evaluation are value-level algorithms and are not decided.",
        design="DESIGN.md §4 C12",
    ),
    "C15": dict(
        rules="R15.0-R15.13",
        what="int/float/fixed-width primitive bindings agree with their C signatures and error kinds; a primitive whose result type has no spare error value (error_overlap) never declares plain ERR_MAGIC; each operator spelling of int/float primitives is bound to that operator's C function; every raw C division/modulo IntOp is emitted under a zero(-1)-excluding guard; every Truncate of a possibly out-of-range value is dominated by the two-sided range check; the inline fast path of tagged-int multiplication cannot wrap under its guard (interval arithmetic on the guard's constant bounds, from clang's expression trees); a boxed int is built only under a does-not-fit test; raw C shifts of native ints are emitted only after a count check (known finding); literal arguments of explicit conversions are not folded by masking (known finding); a floored quotient is snapped to the nearest integer (float //); binary_op hands both operands on left-before-right except for containment (R15.12); a literal left operand of an emitted C shift is cast to the result's C type (R15.13)",
        quant="operator x operand type x boundary values",
        technique="cross-language table check against clang's AST; guard-chain and CFG dominance checks in the IR builder",
        note="Apart from R15.3 (one interval argument over two constants) no value is computed: bit-exactness of the CPyTagged_* helpers needs operand enumeration or a solver (other technique families). R15.3 assumes LP64.",
        design="DESIGN.md §4 C15",
    ),
    "C16": dict(
        rules="R16.1-R16.13",
        what="exception containment of the serve loop by may-raise summaries; status-file removal on every CFG exit of serve; per-connection reset of IPCServer framing state; frame consumption order in frame_from_buffer and writer/reader header agreement; request keys are membership-tested, **data reaches a command only after signature binding, a rejected stop does not exit; rejected requests flush the file system cache; handlers do not assert on request data; handlers that run an engine over the fine-grained manager flush the file-system cache on every exit (R16.11); a `**kwargs` handler binds the keys to its callee's signature before forwarding them (R16.12); request values are compared with the handlers' annotations before the handler runs, and every annotation spelling the handlers use is understood by that check (R16.13)",
        quant="client behaviours and stream segmentations",
        technique="interprocedural may-raise summaries + CFG must-pass-through / pairing queries",
        note="Trusted: the frozen standard-library may-raise table (sa/raises.py); POSIX branches only. Byte-level reassembly for every chunking is value-level and not decided.",
        design="DESIGN.md §4 C16",
    ),
    "C17": dict(
        rules="R17.1-R17.14",
        what="command-line dests vs Options attributes; converter completeness for documented config keys; ini/toml converter table agreement and inversion prefixes; inline comments and per-module sections routed through parse_section; each section applied by its own apply_changes call; precedence orderings by construction (config file before command line, structured before unstructured sections, inline on top); the command line's --strict step is conditional only on the command-line namespace; every list option that apply_changes replays is reset by each section; every structured section is built on clone_for_module(key), whatever the shape of the key (R17.13); a pattern named again in a later section moves to the end of per_module_options, whose order is the precedence of unstructured patterns (R17.14)",
        quant="options x sources x conflicting pairs",
        technique="table/AST cross-check of main.define_options, config_parser tables, Options.__init__ and docs/source/config_file.rst",
        note="The precedence algorithm among sections is value-level and not decided. R17.5 (docs wording) is informational only.",
        design="DESIGN.md §4 C17",
    ),
}

CHECKS["C18"] = dict(
    rules="R18.1-R18.7",
    what="graph insertion discipline of build.load_graph: every insertion of a State is dominated by the clash test for its kind (module id already in the graph; file already seen under another id), the clash branch reports a blocker and raises, inserted paths are recorded; find_sources and modulefinder share one suffix table with the stub suffix first and one package marker; verify_module decides `every containing package has an __init__` level by level, not from the topmost level that has one; the explicit package bases contain MYPYPATH, mypy_path and the current directory for every combination of empty/non-empty inputs (R18.7)",
    quant="directory layouts x flag settings x argument orders",
    technique="CFG must-pass / reachability queries over load_graph; constant evaluation and sibling cross-check of the two path-mapping modules' tables",
    note="Only the 'stops with a duplicate-module error' half of the statement has a shape in the code. That the name crawl_up assigns to a file is the name under which FindModuleCache resolves an import to that file is a relation between two algorithms over all directory trees and is not decided.",
    design="DESIGN.md §4 C18 and §10",
)

CHECKS["C19"] = dict(
    rules="R19.1-R19.12",
    what="definition-kind coverage: every statement kind for which stubgen's DefinitionFinder records a top-level name has an emitting visit method in ASTStubGenerator; the string-producing visitors (AliasPrinter, AnnotationPrinter) return a value on every path of every visit method; decorators collected for a function are cleared on every path on which visit_func_def does not emit it; per-class state of visit_class_def is restored (not reset) when a class ends; unary operators that are words are not glued to their operand; every possibly-True return of is_private_name lies behind the `__all__` membership test (R19.7); stubgen's package-__init__ test for relative imports asks the file's base name (R19.8); a builtin replacement written into the stub is imported when it needs an alias (R19.9); quoted arguments of Literal[...] bypass the type-name rewriting (R19.10); TypeAlias / Final are recognised through the import table, not by the written name (R19.11); bytes literals are written from their stored text, never through repr() (R19.12)",
    quant="generated modules x definition kinds x modes",
    technique="sibling cross-check of the two visitors' method sets with reachability of the emission call inside the generator class; CFG must-pass (every path returns a value) over the printers' methods",
    note="Syntactic validity of the emitted text, its self-consistency under type checking, agreement with the runtime module (stubtest) and preservation of the spelled annotations are properties of the output per input module and are not decided. The claim is two necessary conditions of 'every public definition appears' and 'the stub is valid text'.",
    design="DESIGN.md §10.6",
)

NOT_APPLICABLE = {
    "C01": "soundness of inference relates run-time values to inferred types for every program and execution; no clause of it is visible in the shape of the code (visitor exhaustiveness is already enforced by abstract methods; a must-call-check_subtype rule would be wrong on correct code)",
}

PENDING = {}


def build() -> dict:
    props = [json.loads(l) for l in open(os.path.join(VERIF, "properties.jsonl"))]
    ids = [p["id"] for p in props]
    checks = []
    for pid in ids:
        if pid not in CHECKS:
            continue
        c = CHECKS[pid]
        checks.append(
            {
                "property_id": pid,
                "quick_cmd": f"/venv/bin/python -m sa.check {pid} --tier quick",
                "thorough_cmd": f"/venv/bin/python -m sa.check {pid} --tier thorough",
                "evidence_file": f"/verif/evidence/{pid}.json",
                "replay_cmd_template": f"/venv/bin/python -m sa.check {pid} --replay {{path}}",
                "engine": "sa",
                "level_claimed": {
                    "category": "other",
                    "text": LEVEL_TEXT.format(rules=c["rules"], what=c["what"], quant=c["quant"]),
                    "design_ref": c["design"],
                },
                "level_note": c["note"],
                "technique": "static analysis: " + c["technique"],
            }
        )
    na = []
    for pid in ids:
        if pid in CHECKS:
            continue
        reason = NOT_APPLICABLE.get(pid) or PENDING.get(pid) or "rule pack not built yet in this session; no claim is made"
        na.append({"property_id": pid, "reason": reason})
    return {
        "version": 1,
        "setup_cmd": "/venv/bin/python -m sa.setup",
        "hooks": {
            "guard": "PYTHON_MYPY_VERIF",
            "enable": "none needed: the checks read /repo's source files and never import or run them; no hook was added to python/mypy",
            "baseline_off_cmd": BASELINE_OFF,
            "source_commits": [],
            "add_only": True,
        },
        "engines": [
            {
                "name": "sa",
                "path": "/verif/sa",
                "serves_properties": sorted(CHECKS),
                "kind_free_text": "repository-specific static analysis in pure Python `ast`: program index, annotation-driven receiver typing, RTA call graph, statement CFG with must-pass queries, may-raise summaries, wire-grammar extraction; clang JSON AST for mypyc/lib-rt",
            }
        ],
        "checks": checks,
        "not_applicable": na,
        "notes": "The thorough tier of every check runs the quick rules and then a self-check: the property's seeded variants (sa/variants.json) and kept seeded changes (seeded/<id>/patch.diff) are applied to scratch copies of /repo's current tree outside /repo and /verif, and the evidence records how many were reported (recorded, not judged: SELFTEST-WARN for a miss, never a VIOLATION). Exit codes of every check: 0 held (KNOWN-FINDING lines for listed findings), 1 VIOLATION, 2 ANALYSIS-ERROR (the analyser could not establish a fact; never a verdict on mypy). Genuine defects found and repaired are listed in known_findings.json with status fixed:<commit>.",
    }


def main() -> None:
    m = build()
    with open(os.path.join(VERIF, "MANIFEST.json"), "w") as f:
        json.dump(m, f, indent=1)
        f.write("\n")
    print(f"MANIFEST.json: {len(m['checks'])} checks, {len(m['not_applicable'])} not claimed")


if __name__ == "__main__":
    main()
