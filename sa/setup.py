"""MANIFEST.setup_cmd: verify the offline prerequisites of the checks (nothing is downloaded or built)."""

from __future__ import annotations

import os
import shutil
import sys

from .index import REPO


def main() -> int:
    ok = True
    if sys.version_info < (3, 12):
        print("setup: need Python >= 3.12 to parse every syntax form the repository uses")
        ok = False
    for d in ("mypy", "mypyc"):
        if not os.path.isdir(os.path.join(REPO, d)):
            print(f"setup: {REPO}/{d} missing")
            ok = False
    os.makedirs(os.path.join(os.path.dirname(os.path.dirname(os.path.abspath(__file__))), "evidence"), exist_ok=True)
    clang = shutil.which("clang") or shutil.which("clang-14")
    print(f"setup: python {sys.version.split()[0]}, repo {REPO}, clang {clang or 'ABSENT (C05/C15 C-side rules will report ANALYSIS-ERROR)'}")
    return 0 if ok else 2


if __name__ == "__main__":
    sys.exit(main())
