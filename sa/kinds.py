"""Abstract evaluation of predicates over mypy.nodes.ArgKind (a six-value domain).

A *kind predicate* is a boolean expression whose only non-constant input is one expression `K`
of type ArgKind: `K == nodes.ARG_STAR`, `K not in [ARG_NAMED, ARG_STAR2]`, `K.is_named(star=True)`,
`not K.is_positional()`, and and/or combinations over the same K.  Its meaning is its truth set
over the six kinds, computed here from the source of ArgKind's own methods (no code is run).
"""

from __future__ import annotations

import ast

from .index import AnalysisError, norm

KINDS = ("ARG_POS", "ARG_OPT", "ARG_STAR", "ARG_NAMED", "ARG_STAR2", "ARG_NAMED_OPT")


def _kind_const(e: ast.expr) -> str | None:
    t = norm(e)
    for k in KINDS:
        if t in (k, f"nodes.{k}", f"ArgKind.{k}", f"nodes.ArgKind.{k}", f"mypy.nodes.{k}"):
            return k
    return None


class KindEval:
    def __init__(self, ix):
        self.cls = ix.cls("mypy.nodes.ArgKind")

    def method(self, name: str, kind: str, kwargs: dict[str, bool]) -> bool:
        m = self.cls.methods.get(name)
        if m is None:
            raise AnalysisError(f"ArgKind.{name} not found")
        env = {}
        params = m.node.args.args[1:]
        defaults = m.node.args.defaults
        for p_, d in zip(params[len(params) - len(defaults):], defaults):
            if isinstance(d, ast.Constant):
                env[p_.arg] = bool(d.value)
        env.update(kwargs)
        rets = [n for n in m.node.body if isinstance(n, ast.Return)]
        if len(rets) != 1:
            raise AnalysisError(f"ArgKind.{name}: single return expected")
        return self._ev(rets[0].value, kind, env, subject="self")

    def _ev(self, e: ast.expr, kind: str, env: dict[str, bool], subject: str) -> bool:
        if isinstance(e, ast.BoolOp):
            vals = [self._ev(v, kind, env, subject) for v in e.values]
            return all(vals) if isinstance(e.op, ast.And) else any(vals)
        if isinstance(e, ast.UnaryOp) and isinstance(e.op, ast.Not):
            return not self._ev(e.operand, kind, env, subject)
        if isinstance(e, ast.Name) and e.id in env:
            return env[e.id]
        if isinstance(e, ast.Constant) and isinstance(e.value, bool):
            return e.value
        if isinstance(e, ast.Compare) and len(e.ops) == 1 and norm(e.left) == subject:
            op, rhs = e.ops[0], e.comparators[0]
            if isinstance(op, (ast.Eq, ast.Is, ast.NotEq, ast.IsNot)):
                k = _kind_const(rhs)
                if k is None:
                    raise AnalysisError(f"kind predicate compares with a non-kind: {norm(e)}")
                return (kind == k) == isinstance(op, (ast.Eq, ast.Is))
            if isinstance(op, (ast.In, ast.NotIn)) and isinstance(rhs, (ast.List, ast.Tuple, ast.Set)):
                ks = [_kind_const(x) for x in rhs.elts]
                if None in ks:
                    raise AnalysisError(f"kind predicate tests membership in a non-kind collection: {norm(e)}")
                return (kind in ks) == isinstance(op, ast.In)
        if isinstance(e, ast.Call) and isinstance(e.func, ast.Attribute) and norm(e.func.value) == subject and e.func.attr in self.cls.methods:
            kw = {}
            m = self.cls.methods[e.func.attr]
            pnames = [a.arg for a in m.node.args.args[1:]]
            for a, pn in zip(e.args, pnames):
                if isinstance(a, ast.Constant):
                    kw[pn] = bool(a.value)
            for k_ in e.keywords:
                if isinstance(k_.value, ast.Constant):
                    kw[k_.arg] = bool(k_.value.value)
            return self.method(e.func.attr, kind, kw)
        raise AnalysisError(f"not a kind predicate over `{subject}`: {norm(e)}")

    def truth_set(self, e: ast.expr, subject: str) -> frozenset[str]:
        return frozenset(k for k in KINDS if self._ev(e, k, {}, subject))


def kind_subjects(e: ast.expr) -> set[str]:
    """Candidate subjects: expressions compared with a kind constant or having an ArgKind method called on them."""
    out = set()
    for n in ast.walk(e):
        if isinstance(n, ast.Compare) and len(n.ops) == 1:
            rhs = n.comparators[0]
            if _kind_const(rhs) or (isinstance(rhs, (ast.List, ast.Tuple, ast.Set)) and rhs.elts and all(_kind_const(x) for x in rhs.elts)):
                out.add(norm(n.left))
        if isinstance(n, ast.Call) and isinstance(n.func, ast.Attribute) and n.func.attr in ("is_positional", "is_named", "is_required", "is_optional", "is_star"):
            out.add(norm(n.func.value))
    return out
