"""C front end for mypyc/lib-rt: clang's JSON AST, reduced to function signatures and return shapes.

`clang -fsyntax-only -Xclang -ast-dump=json` is run per translation unit with the interpreter's
include directory; the (large) dump is reduced in the worker to
  name -> {ret, params, variadic, has_body, returns: [NULL | int:<v> | call:<f> | other | void]}
and cached under /verif/.cache keyed by a digest of the unit, every lib-rt header and clang's
version.  Function-like macros come from `clang -E -dM` (name -> parameter count).
"""

from __future__ import annotations

import glob
import hashlib
import json
import os
import re
import shutil
import subprocess
import sys
from concurrent.futures import ProcessPoolExecutor

from .index import AnalysisError

VERIF = os.path.dirname(os.path.dirname(os.path.abspath(__file__)))
CACHE = os.path.join(VERIF, ".cache", "cfront")
with open(__file__, "rb") as _fh:  # read once at import: the digest then describes the code that is loaded
    _SELF_DIGEST = hashlib.sha1(_fh.read()).digest()


def py_include() -> str:
    import sysconfig
    inc = sysconfig.get_paths()["include"]
    if not os.path.exists(os.path.join(inc, "Python.h")):
        for cand in glob.glob("/root/.pyenv/versions/*/include/python3.*") + glob.glob("/usr/include/python3.*"):
            if os.path.exists(os.path.join(cand, "Python.h")):
                return cand
        raise AnalysisError("Python.h not found")
    return inc


def _strip(x):
    while x.get("kind") in ("ImplicitCastExpr", "ParenExpr", "CStyleCastExpr", "ConstantExpr") and x.get("inner"):
        x = x["inner"][0]
    return x


def _is_null(e) -> bool:
    k = e.get("kind")
    if k == "ImplicitCastExpr" and e.get("castKind") == "NullToPointer":
        return True
    if k in ("ImplicitCastExpr", "ParenExpr", "CStyleCastExpr"):
        inner = e.get("inner", [])
        return bool(inner) and _is_null(inner[0])
    return k == "GNUNullExpr"


def _classify(e, rettype: str) -> str:
    if e is None:
        return "void"
    if "*" in rettype and _is_null(e):
        return "NULL"
    s = _strip(e)
    k = s.get("kind")
    if k == "IntegerLiteral":
        return "int:" + s.get("value", "?")
    if k == "UnaryOperator" and s.get("opcode") == "-":
        t = _strip(s["inner"][0])
        if t.get("kind") == "IntegerLiteral":
            return "int:-" + t.get("value", "?")
    if k == "CallExpr":
        cal = _strip(s["inner"][0])
        return "call:" + cal.get("referencedDecl", {}).get("name", "?")
    if k == "DeclRefExpr":
        return "ref:" + s.get("referencedDecl", {}).get("name", "?")
    return "other"


def _returns(node, out):
    if node.get("kind") == "ReturnStmt":
        inner = node.get("inner", [])
        out.append(inner[0] if inner else None)
        return
    for c in node.get("inner", []) or []:
        if isinstance(c, dict):
            _returns(c, out)


INCREF_NAMES = {"Py_INCREF", "Py_XINCREF", "Py_NewRef", "Py_XNewRef", "CPy_INCREF", "CPy_XINCREF", "CPy_INCREF_NO_IMM", "_Py_NewRef", "_Py_XNewRef", "Py_SETREF", "Py_XSETREF"}


def _names_in(e, out: set) -> None:
    if e.get("kind") == "DeclRefExpr":
        nm = e.get("referencedDecl", {}).get("name")
        if nm:
            out.add(nm)
    for c in e.get("inner", []) or []:
        if isinstance(c, dict):
            _names_in(c, out)


def _value_source(e) -> str:
    """What a pointer-valued expression is: call:<callee>, ref:<var>, NULL or other."""
    if _is_null(e):
        return "NULL"
    s = _strip(e)
    k = s.get("kind")
    if k == "CallExpr" and s.get("inner"):
        cal = _strip(s["inner"][0])
        return "call:" + cal.get("referencedDecl", {}).get("name", "?")
    if k == "DeclRefExpr":
        return "ref:" + s.get("referencedDecl", {}).get("name", "?")
    if k == "ConditionalOperator" and len(s.get("inner", [])) == 3:
        return "cond:" + _value_source(s["inner"][1]) + "|" + _value_source(s["inner"][2])
    if k == "ArraySubscriptExpr" and s.get("inner"):
        base = _strip(s["inner"][0])
        if base.get("kind") == "MemberExpr" and base.get("name") == "ob_item":
            return "borrowed:ob_item"  # PyList_GET_ITEM / PyTuple_GET_ITEM after macro expansion
    return "other"


def _ownership_facts(node, inc: set, asg: dict) -> None:
    """Names passed to an inc-ref function anywhere in the body; for each local pointer variable,
    the sources it is assigned from."""
    k = node.get("kind")
    if k == "CallExpr" and node.get("inner"):
        cal = _strip(node["inner"][0])
        if cal.get("referencedDecl", {}).get("name") in INCREF_NAMES:
            for a in node["inner"][1:]:
                _names_in(a, inc)
    elif k == "VarDecl":
        init = [c for c in node.get("inner", []) or [] if isinstance(c, dict) and c.get("kind") not in ("FullComment",)]
        if init and "*" in node.get("type", {}).get("qualType", ""):
            asg.setdefault(node.get("name", "?"), set()).add(_value_source(init[-1]))
    elif k == "BinaryOperator" and node.get("opcode") == "=" and len(node.get("inner", [])) == 2:
        lhs = _strip(node["inner"][0])
        if lhs.get("kind") == "DeclRefExpr" and "*" in node.get("type", {}).get("qualType", ""):
            asg.setdefault(lhs.get("referencedDecl", {}).get("name", "?"), set()).add(_value_source(node["inner"][1]))
    for c in node.get("inner", []) or []:
        if isinstance(c, dict):
            _ownership_facts(c, inc, asg)


STEALING_APIS = {"PyList_SET_ITEM": 2, "PyTuple_SET_ITEM": 2, "PyList_SetItem": 2, "PyTuple_SetItem": 2, "PyStructSequence_SET_ITEM": 2, "PyStructSequence_SetItem": 2}
DECREF_NAMES = {"Py_DECREF", "Py_XDECREF", "CPy_DECREF", "CPy_XDECREF", "CPy_DecRef", "CPy_XDecRef", "Py_CLEAR", "CPy_DECREF_NO_IMM", "_Py_DECREF_SPECIALIZED"}


def _consumes(node, pname: str) -> bool:
    """Does evaluating this expression / declaration give away the reference held in parameter pname?"""
    k = node.get("kind")
    if k == "CallExpr" and node.get("inner"):
        cal = _strip(node["inner"][0]).get("referencedDecl", {}).get("name")
        args = node["inner"][1:]
        if cal in DECREF_NAMES and args:
            s0 = _strip(args[0])
            if s0.get("kind") == "DeclRefExpr" and s0.get("referencedDecl", {}).get("name") == pname:
                return True
        if cal in STEALING_APIS and len(args) > STEALING_APIS[cal]:
            s0 = _strip(args[STEALING_APIS[cal]])
            if s0.get("kind") == "DeclRefExpr" and s0.get("referencedDecl", {}).get("name") == pname:
                return True
    if k == "BinaryOperator" and node.get("opcode") == "=" and len(node.get("inner", [])) == 2:
        lhs, rhs = _strip(node["inner"][0]), _strip(node["inner"][1])
        if rhs.get("kind") == "DeclRefExpr" and rhs.get("referencedDecl", {}).get("name") == pname and lhs.get("kind") in ("MemberExpr", "ArraySubscriptExpr", "UnaryOperator"):
            return True  # stored into an object / buffer slot: the container owns it now
    for c in node.get("inner", []) or []:
        if isinstance(c, dict) and c.get("kind") not in ("CompoundStmt", "IfStmt", "ReturnStmt", "ForStmt", "WhileStmt", "DoStmt", "SwitchStmt") and _consumes(c, pname):
            return True
    return False


def _consumption_at_returns(body, pname: str):
    """Structured walk: for every return statement, may the reference in `pname` still be unconsumed?
    Returns (list of {line, value, may_be_unconsumed}, structured: bool)."""
    out = []
    ok = [True]

    def walk(st, state: frozenset) -> frozenset | None:
        """state ⊆ {'N','C'}; returns the state after st, or None if st never completes normally."""
        k = st.get("kind")
        kids = [c for c in st.get("inner", []) or [] if isinstance(c, dict)]
        if k == "CompoundStmt":
            for c in kids:
                state = walk(c, state)
                if state is None:
                    return None
            return state
        if k == "ReturnStmt":
            cur = state
            if kids and _consumes(kids[0], pname):
                cur = frozenset("C")
            v = _strip(kids[0]) if kids else None
            if v is not None and v.get("kind") == "DeclRefExpr" and v.get("referencedDecl", {}).get("name") == pname:
                cur = frozenset("C")  # handed back to the caller as the result
            out.append({"line": st.get("range", {}).get("begin", {}).get("line"), "value": _value_source(kids[0]) if kids else "void", "may_be_unconsumed": "N" in cur})
            return None
        if k == "IfStmt":
            cond = kids[0] if kids else None
            if cond is not None and _consumes(cond, pname):
                state = frozenset("C")
            branches = kids[1:]
            res = []
            for b in branches[:2]:
                r = walk(b, state)
                if r is not None:
                    res.append(r)
            if len(branches) < 2:
                res.append(state)
            if not res:
                return None
            acc = frozenset()
            for r in res:
                acc |= r
            return acc
        if k in ("ForStmt", "WhileStmt", "DoStmt"):
            body_st = kids[-1] if kids else None
            after = state
            if body_st is not None:
                r = walk(body_st, state)
                if r is not None:
                    after = after | r
            return after
        if k in ("GotoStmt", "LabelStmt", "SwitchStmt", "IndirectGotoStmt"):
            ok[0] = False
            return state
        if k in ("BreakStmt", "ContinueStmt", "NullStmt"):
            return state
        # expression statement / declaration
        if _consumes(st, pname):
            return frozenset("C")
        return state
    end = walk(body, frozenset("N"))
    if end is not None:
        out.append({"line": body.get("range", {}).get("end", {}).get("line"), "value": "end of function", "may_be_unconsumed": "N" in end})
    return out, ok[0]


def _given_away(node, pname: str) -> str | None:
    """How the function hands the reference in `pname` to someone else (stealing API / slot store), if it does."""
    k = node.get("kind")
    if k == "CallExpr" and node.get("inner"):
        cal = _strip(node["inner"][0]).get("referencedDecl", {}).get("name")
        args = node["inner"][1:]
        if cal in STEALING_APIS and len(args) > STEALING_APIS[cal]:
            s0 = _strip(args[STEALING_APIS[cal]])
            if s0.get("kind") == "DeclRefExpr" and s0.get("referencedDecl", {}).get("name") == pname:
                return f"{cal}(..., {pname})"
    if k == "BinaryOperator" and node.get("opcode") == "=" and len(node.get("inner", [])) == 2:
        lhs, rhs = _strip(node["inner"][0]), _strip(node["inner"][1])
        if rhs.get("kind") == "DeclRefExpr" and rhs.get("referencedDecl", {}).get("name") == pname and lhs.get("kind") in ("MemberExpr", "ArraySubscriptExpr"):
            return f"store of {pname} into a {'field' if lhs.get('kind') == 'MemberExpr' else 'slot'}"
    for c in node.get("inner", []) or []:
        if isinstance(c, dict):
            r = _given_away(c, pname)
            if r:
                return r
    return None


def _increfed(node, pname: str) -> bool:
    if node.get("kind") == "CallExpr" and node.get("inner"):
        cal = _strip(node["inner"][0]).get("referencedDecl", {}).get("name")
        if cal in INCREF_NAMES:
            names: set = set()
            for a in node["inner"][1:]:
                _names_in(a, names)
            if pname in names:
                return True
    return any(_increfed(c, pname) for c in node.get("inner", []) or [] if isinstance(c, dict))


PURE_CALLS = {"Py_TYPE", "Py_IS_TYPE", "Py_SIZE", "PyList_GET_SIZE", "PyTuple_GET_SIZE", "PyUnicode_GET_LENGTH", "PyBytes_GET_SIZE", "PyByteArray_GET_SIZE", "PyDict_GET_SIZE", "PySet_GET_SIZE",
              "PyType_HasFeature", "PyType_FastSubclass", "PyObject_TypeCheck", "PyType_IsSubtype", "__builtin_expect", "PyFloat_AS_DOUBLE", "PyUnicode_READ_CHAR", "PyUnicode_KIND", "PyUnicode_DATA",
              "PyUnicode_IS_READY", "PyUnicode_IS_ASCII", "PyUnicode_IS_COMPACT", "PyUnicode_IS_COMPACT_ASCII", "PyBytes_AS_STRING", "PyByteArray_AS_STRING", "_PyUnicode_COMPACT_DATA", "_PyUnicode_NONCOMPACT_DATA",
              "PyUnicode_1BYTE_DATA", "PyList_GET_ITEM", "PyTuple_GET_ITEM", "_Py_IsImmortal", "Py_Is", "Py_IsNone", "Py_IsTrue", "Py_IsFalse", "PyErr_Occurred",
              "Py_INCREF", "Py_XINCREF", "Py_DECREF", "Py_XDECREF", "CPy_INCREF", "CPy_DECREF", "CPy_XDECREF", "Py_NewRef", "Py_XNewRef", "PyUnicode_READ", "PyUnicode_MAX_CHAR_VALUE"}


def _pure_call_name(nm: str | None) -> bool:
    if nm is None:
        return False
    return nm in PURE_CALLS or nm.startswith("CPyTagged_Check") or nm.startswith("CPyTagged_ShortAs") or nm.startswith("CPyTagged_Is") or nm.endswith("_Check") or nm.endswith("_CheckExact") or nm.startswith("CPy_TYPE") or nm.startswith("__builtin_")


def _has_effect_call(node) -> bool:
    """Is any function called in this subtree that is not on the list of pure accessors?"""
    if node.get("kind") == "CallExpr" and node.get("inner"):
        cal = _strip(node["inner"][0]).get("referencedDecl", {}).get("name")
        if not _pure_call_name(cal):
            return True
    return any(_has_effect_call(c) for c in node.get("inner", []) or [] if isinstance(c, dict))


def _silent_error_returns(body, is_error) -> list[int]:
    """Lines of `return <error value>` statements that can be reached from the function entry without any
    call that could have set an exception (structured walk; goto/switch make the function undecided: [])."""
    out: list[int] = []
    bad = [False]

    def walk(st, called: frozenset) -> frozenset | None:
        k = st.get("kind")
        kids = [c for c in st.get("inner", []) or [] if isinstance(c, dict)]
        if k == "CompoundStmt":
            for c in kids:
                called = walk(c, called)
                if called is None:
                    return None
            return called
        if k == "ReturnStmt":
            if kids and is_error(kids[0]) and False in called and not _has_effect_call(kids[0]):
                out.append(st.get("range", {}).get("begin", {}).get("line") or -1)
            return None
        if k == "IfStmt":
            if kids and _has_effect_call(kids[0]):
                called = frozenset([True])
            res = []
            for b in kids[1:3]:
                r = walk(b, called)
                if r is not None:
                    res.append(r)
            if len(kids) < 3:
                res.append(called)
            if not res:
                return None
            acc = frozenset()
            for r in res:
                acc |= r
            return acc
        if k in ("ForStmt", "WhileStmt", "DoStmt"):
            for c in kids[:-1]:
                if _has_effect_call(c):
                    called = frozenset([True])
            r = walk(kids[-1], called) if kids else called
            return called | (r or frozenset())
        if k in ("GotoStmt", "LabelStmt", "SwitchStmt", "IndirectGotoStmt"):
            bad[0] = True
            return called
        if k in ("BreakStmt", "ContinueStmt", "NullStmt"):
            return called
        return frozenset([True]) if _has_effect_call(st) else called
    walk(body, frozenset([False]))
    return [] if bad[0] else sorted(set(out))


def _heap_tag_sites(body) -> list[dict]:
    """Places where a CPyTagged is made from an object pointer by OR-ing the tag bit (`((CPyTagged)obj) | 1`),
    with the names mentioned by the enclosing if-conditions under which the expression is evaluated (then-branches)."""
    out: list[dict] = []

    def is_tagging(n) -> bool:
        if n.get("kind") != "BinaryOperator" or n.get("opcode") != "|" or len(n.get("inner", [])) != 2:
            return False
        l, r = n["inner"]
        rs = _strip(r)
        if not (rs.get("kind") == "IntegerLiteral" and rs.get("value") == "1"):
            return False
        # left: a cast of a pointer-typed expression to the integer type
        cur = l
        while cur.get("kind") in ("ParenExpr", "ImplicitCastExpr") and cur.get("inner"):
            cur = cur["inner"][0]
        if cur.get("kind") != "CStyleCastExpr" or not cur.get("inner"):
            return False
        inner = cur["inner"][0]
        while inner.get("kind") in ("ParenExpr", "ImplicitCastExpr") and inner.get("inner"):
            inner = inner["inner"][0]
        return "*" in inner.get("type", {}).get("qualType", "")

    def walk(n, conds: list):
        k = n.get("kind")
        kids = [c for c in n.get("inner", []) or [] if isinstance(c, dict)]
        if is_tagging(n):
            names: set = set()
            for c in conds:
                _names_in(c, names)
                # callee names of calls in the condition
                def calls(x):
                    if x.get("kind") == "CallExpr" and x.get("inner"):
                        nm = _strip(x["inner"][0]).get("referencedDecl", {}).get("name")
                        if nm:
                            names.add(nm)
                    for y in x.get("inner", []) or []:
                        if isinstance(y, dict):
                            calls(y)
                calls(c)
            ops: set = set()

            def relops(x):
                if x.get("kind") == "BinaryOperator" and x.get("opcode") in ("<", ">", "<=", ">="):
                    ops.add(x["opcode"])
                for y in x.get("inner", []) or []:
                    if isinstance(y, dict):
                        relops(y)
            for c in conds:
                relops(c)
            out.append({"line": n.get("range", {}).get("begin", {}).get("line"), "guard_names": sorted(names), "n_guards": len(conds), "guard_relops": sorted(ops)})
        if k == "IfStmt" and len(kids) >= 2:
            walk(kids[0], conds)
            walk(kids[1], conds + [kids[0]])
            for e in kids[2:]:
                walk(e, conds)  # else branch: the negated condition is not a size test we can use
            return
        for c in kids:
            walk(c, conds)
    walk(body, [])
    return out


_RELEASES = ("Py_DECREF", "Py_XDECREF", "Py_CLEAR", "CPy_DECREF", "CPy_XDECREF", "CPy_DecRef", "CPy_XDecRef", "Py_DecRef")
_SLOT_STORES = ("PyList_SET_ITEM", "PyTuple_SET_ITEM")


def _slot_events(body) -> list[dict]:
    """In source order: releases whose operand reads a container slot in place (`Py_DECREF(list->ob_item[i])`)
    and stores into a container slot (PyList_SET_ITEM / PyTuple_SET_ITEM), with the container's name."""
    out: list[dict] = []

    def has_slot_read(x) -> bool:
        if x.get("kind") == "MemberExpr" and x.get("name") == "ob_item":
            return True
        return any(has_slot_read(y) for y in x.get("inner", []) or [] if isinstance(y, dict))

    def root_name(x) -> str | None:
        names: set = set()
        _names_in(x, names)
        return sorted(names)[0] if len(names) == 1 else None

    def walk(n):
        if n.get("kind") == "CallExpr" and n.get("inner"):
            nm = _strip(n["inner"][0]).get("referencedDecl", {}).get("name")
            args = n["inner"][1:]
            line = n.get("range", {}).get("begin", {}).get("expansionLoc", n.get("range", {}).get("begin", {})).get("line")
            if nm in _RELEASES and args and has_slot_read(args[0]):
                out.append({"ev": "release_in_place", "line": line, "container": root_name(args[0]) if False else None})
            elif nm in _SLOT_STORES and args:
                out.append({"ev": "store", "line": line, "container": root_name(args[0]), "fn": nm})
        for c in n.get("inner", []) or []:
            if isinstance(c, dict):
                walk(c)
    walk(body)
    return out


def _zero_compares(body, pnames: list[str]) -> list[dict]:
    """Order comparisons of an integer parameter with the literal 0 (sign tests)."""
    out: list[dict] = []
    flip = {"<": ">", ">": "<", "<=": ">=", ">=": "<="}

    def walk(n):
        if n.get("kind") == "BinaryOperator" and n.get("opcode") in flip and len(n.get("inner", [])) == 2:
            l, r = (_strip(x) for x in n["inner"])
            op = n["opcode"]
            if l.get("kind") == "IntegerLiteral":
                l, r, op = r, l, flip[op]
            if r.get("kind") == "IntegerLiteral" and r.get("value") == "0" and l.get("kind") == "DeclRefExpr":
                nm = l.get("referencedDecl", {}).get("name")
                if nm in pnames:
                    out.append({"param": nm, "op": op, "line": n.get("range", {}).get("begin", {}).get("line")})
        for c in n.get("inner", []) or []:
            if isinstance(c, dict):
                walk(c)
    walk(body)
    return out


_SIZED_ALLOCS = ("PyBytes_FromStringAndSize", "PyByteArray_FromStringAndSize")


def _alloc_size_sites(body, pnames: list[str]) -> list[dict]:
    """Calls of the sized bytes constructors with a description of where the size comes from:
    per name mentioned in the size argument, how the name is initialised (`sub`: a difference, `size`:
    an object's length, `param`, `other`) and whether the function compares it with 0 anywhere."""
    decl_init: dict[str, dict] = {}
    zero_cmp: set[str] = set()

    def scan(n):
        if n.get("kind") == "VarDecl" and n.get("name"):
            inits = [c for c in n.get("inner", []) or [] if isinstance(c, dict)]
            if inits:
                decl_init[n["name"]] = inits[-1]
        if n.get("kind") == "BinaryOperator" and n.get("opcode") in ("<", "<=", ">", ">=") and len(n.get("inner", [])) == 2:
            l, r = (_strip(x) for x in n["inner"])
            for a, b in ((l, r), (r, l)):
                if b.get("kind") == "IntegerLiteral" and b.get("value") == "0" and a.get("kind") == "DeclRefExpr":
                    zero_cmp.add(a.get("referencedDecl", {}).get("name"))
        for c in n.get("inner", []) or []:
            if isinstance(c, dict):
                scan(c)
    scan(body)

    def has_len_source(x) -> bool:
        if x.get("kind") == "MemberExpr" and x.get("name") in ("ob_size", "length", "len"):
            return True
        if x.get("kind") == "CallExpr" and x.get("inner"):
            nm = _strip(x["inner"][0]).get("referencedDecl", {}).get("name") or ""
            if nm.endswith(("_GET_SIZE", "_GET_LENGTH", "_Size", "Py_SIZE")):
                return True
        return any(has_len_source(y) for y in x.get("inner", []) or [] if isinstance(y, dict))

    def origin(nm: str) -> str:
        if nm in pnames:
            return "param"
        init = decl_init.get(nm)
        if init is None:
            return "other"
        st = _strip(init)
        if st.get("kind") == "BinaryOperator" and st.get("opcode") == "-":
            return "sub"
        if has_len_source(init):
            return "size"
        return "other"

    out: list[dict] = []

    def walk(n):
        if n.get("kind") == "CallExpr" and n.get("inner"):
            nm = _strip(n["inner"][0]).get("referencedDecl", {}).get("name")
            if nm in _SIZED_ALLOCS and len(n["inner"]) >= 3:
                size = n["inner"][2]
                st = _strip(size)
                names: set = set()
                _names_in(size, names)
                ent = {"fn": nm, "line": n.get("range", {}).get("begin", {}).get("line"), "literal": st.get("kind") == "IntegerLiteral", "has_sub": False,
                       "names": {x: {"origin": origin(x), "zero_compared": x in zero_cmp} for x in sorted(names)}}

                def sub(x):
                    if x.get("kind") == "BinaryOperator" and x.get("opcode") == "-":
                        ent["has_sub"] = True
                    for y in x.get("inner", []) or []:
                        if isinstance(y, dict):
                            sub(y)
                sub(size)
                out.append(ent)
        for c in n.get("inner", []) or []:
            if isinstance(c, dict):
                walk(c)
    walk(body)
    return out


def _floor_of_quotient(body) -> list[dict]:
    """Calls `floor(v)` where v is a local that some statement assigns from a floating division; with whether
    the function also corrects the result to the nearest integer (a comparison of `v - <floored>` with 0.5)."""
    divided: set[str] = set()

    def scan(n):
        if n.get("kind") == "BinaryOperator" and n.get("opcode") == "=" and len(n.get("inner", [])) == 2:
            l, r = n["inner"]
            ls = _strip(l)
            if ls.get("kind") == "DeclRefExpr":
                def has_div(x):
                    if x.get("kind") == "BinaryOperator" and x.get("opcode") == "/":
                        return True
                    return any(has_div(y) for y in x.get("inner", []) or [] if isinstance(y, dict))
                if has_div(r):
                    divided.add(ls.get("referencedDecl", {}).get("name"))
        if n.get("kind") == "VarDecl" and n.get("name"):
            for c in n.get("inner", []) or []:
                if isinstance(c, dict):
                    def has_div2(x):
                        if x.get("kind") == "BinaryOperator" and x.get("opcode") == "/":
                            return True
                        return any(has_div2(y) for y in x.get("inner", []) or [] if isinstance(y, dict))
                    if has_div2(c):
                        divided.add(n["name"])
        for c in n.get("inner", []) or []:
            if isinstance(c, dict):
                scan(c)
    scan(body)
    half: set[str] = set()

    def scan_half(n):
        if n.get("kind") == "BinaryOperator" and n.get("opcode") in (">", ">=", "<", "<=") and len(n.get("inner", [])) == 2:
            sides = [_strip(x) for x in n["inner"]]
            lit = [x for x in sides if x.get("kind") == "FloatingLiteral" and str(x.get("value")) in ("0.5", "0.50", "5.0E-1", "0.5E+0", "5.0e-01")]
            if lit:
                for x in sides:
                    if x.get("kind") == "BinaryOperator" and x.get("opcode") == "-":
                        names: set = set()
                        _names_in(x, names)
                        half.update(names)
        for c in n.get("inner", []) or []:
            if isinstance(c, dict):
                scan_half(c)
    scan_half(body)
    out: list[dict] = []

    def walk(n):
        if n.get("kind") == "CallExpr" and n.get("inner"):
            nm = _strip(n["inner"][0]).get("referencedDecl", {}).get("name")
            if nm == "floor" and len(n["inner"]) >= 2:
                a = _strip(n["inner"][1])
                if a.get("kind") == "DeclRefExpr":
                    v = a.get("referencedDecl", {}).get("name")
                    if v in divided:
                        out.append({"var": v, "line": n.get("range", {}).get("begin", {}).get("line"), "snapped": v in half})
        for c in n.get("inner", []) or []:
            if isinstance(c, dict):
                walk(c)
    walk(body)
    return out


def _reduce(doc: dict) -> dict:
    res = {}
    for n in doc.get("inner", []):
        if n.get("kind") != "FunctionDecl":
            continue
        name = n.get("name")
        qt = n.get("type", {}).get("qualType", "")
        m = re.match(r"(.*?)\((.*)\)\s*$", qt)
        if not m:
            continue
        ret = m.group(1).strip()
        params = [c.get("type", {}).get("qualType", "") for c in n.get("inner", []) if c.get("kind") == "ParmVarDecl"]
        body = [c for c in n.get("inner", []) if c.get("kind") == "CompoundStmt"]
        ent = {"ret": ret, "params": params, "variadic": bool(n.get("variadic")), "has_body": bool(body), "returns": []}
        if body:
            out = []
            _returns(body[0], out)
            ent["returns"] = sorted({_classify(e, ret) for e in out})
            pnames = [c.get("name") for c in n.get("inner", []) if c.get("kind") == "ParmVarDecl"]
            cons = {}
            for pn, pt in zip(pnames, params):
                if pn and "*" in pt and "PyObject" in pt:
                    rets, structured = _consumption_at_returns(body[0], pn)
                    cons[pn] = {"returns": rets, "structured": structured, "given_away": _given_away(body[0], pn), "increfed": _increfed(body[0], pn)}
            ent["param_names"] = pnames
            hts = _heap_tag_sites(body[0])
            if hts:
                ent["heap_tag_sites"] = hts
            ipn = [pn for pn, pt in zip(pnames, params) if pn and pt in ("int64_t", "Py_ssize_t", "int32_t", "int16_t", "long", "int", "long long")]
            zc = _zero_compares(body[0], ipn) if ipn else []
            if zc:
                ent["zero_compares"] = zc
            ass = _alloc_size_sites(body[0], [pn for pn in pnames if pn])
            if ass:
                ent["alloc_size_sites"] = ass
            foq = _floor_of_quotient(body[0])
            if foq:
                ent["floor_of_quotient"] = foq
            sev = _slot_events(body[0])
            if any(e["ev"] == "store" for e in sev):
                ent["slot_events"] = sev
            if "*" in ret:
                ent["silent_error_returns"] = _silent_error_returns(body[0], _is_null)
            elif ret in ("char", "_Bool", "bool"):
                ent["silent_error_returns"] = _silent_error_returns(body[0], lambda e: _classify(e, ret) in ("int:0", "int:2") or (_strip(e).get("kind") == "CXXBoolLiteralExpr" and not _strip(e).get("value")))
            elif ret in ("int", "int32_t", "Py_ssize_t", "long"):
                ent["silent_error_returns"] = _silent_error_returns(body[0], lambda e: _classify(e, ret) == "int:-1")
            ent["consumption"] = cons
            if "*" in ret:
                inc: set[str] = set()
                asg: dict[str, set[str]] = {}
                _ownership_facts(body[0], inc, asg)
                ent["incref_args"] = sorted(inc)
                ent["return_sources"] = sorted({_value_source(e) for e in out if e is not None})
                ent["assigned_from"] = {k: sorted(v) for k, v in asg.items()}
        if name not in res or (ent["has_body"] and not res[name]["has_body"]):
            res[name] = ent
    return res


def _dump_unit(args) -> tuple[str, dict | str]:
    path, incs, clang = args
    cmd = [clang, "-fsyntax-only", "-Xclang", "-ast-dump=json", "-w"] + [f"-I{i}" for i in incs] + [path]
    p = subprocess.run(cmd, capture_output=True, cwd=os.path.dirname(path))
    if p.returncode != 0 and not p.stdout:
        return path, f"clang failed: {p.stderr.decode()[-400:]}"
    try:
        doc = json.loads(p.stdout)
    except ValueError as e:
        return path, f"unparseable clang output: {e}"
    return path, _reduce(doc)


def lib_rt_functions(repo_root: str) -> tuple[dict, dict]:
    """({name: signature entry}, {macro name: n_params}) for mypyc/lib-rt of the given tree."""
    librt = os.path.join(repo_root, "mypyc", "lib-rt")
    clang = shutil.which("clang") or shutil.which("clang-14")
    if clang is None:
        raise AnalysisError("clang not available: the C side of C05/C15 cannot be analysed")
    units = sorted(glob.glob(os.path.join(librt, "*.c")) + glob.glob(os.path.join(librt, "*", "*.c")))
    units = [u for u in units if os.path.basename(u) not in ("module_shim.c", "vec_template.c") and "/base64/" not in u]
    if len(units) < 10:
        raise AnalysisError("lib-rt translation units not found")
    incs = [librt, py_include()] + [d for d in sorted(glob.glob(os.path.join(librt, "*"))) if os.path.isdir(d)]
    h = hashlib.sha1()
    for f in sorted(glob.glob(os.path.join(librt, "**", "*.[ch]"), recursive=True)):
        with open(f, "rb") as fh:
            # relative names: scratch copies of an unchanged lib-rt share one cache entry
            h.update(os.path.relpath(f, librt).encode() + b"\0" + fh.read())
    h.update(subprocess.run([clang, "--version"], capture_output=True).stdout)
    h.update(_SELF_DIGEST)
    key = h.hexdigest()
    cpath = os.path.join(CACHE, key + ".json")
    if os.path.exists(cpath):
        with open(cpath) as fh:
            d = json.load(fh)
        return d["functions"], d["macros"]
    funcs: dict = {}
    errors = []
    with ProcessPoolExecutor(max_workers=12) as ex:
        for path, res in ex.map(_dump_unit, [(u, incs, clang) for u in units]):
            if isinstance(res, str):
                errors.append(f"{os.path.basename(path)}: {res}")
                continue
            for name, ent in res.items():
                if name not in funcs or (ent["has_body"] and not funcs[name]["has_body"]):
                    funcs[name] = ent
    if errors and len(errors) > len(units) // 2:
        raise AnalysisError("clang could not parse lib-rt: " + "; ".join(errors[:3]))
    macros = {}
    p = subprocess.run([clang, "-E", "-dM", "-w"] + [f"-I{i}" for i in incs] + [os.path.join(librt, "CPy.h")], capture_output=True, text=True, cwd=librt)
    for line in p.stdout.splitlines():
        m = re.match(r"#define (\w+)\(([^)]*)\)", line)
        if m:
            macros[m.group(1)] = len([x for x in m.group(2).split(",") if x.strip()])
    # object-like macros of the capsule APIs (`#define X_internal (*(sig) Table[n])`) and names that are
    # only conditionally compiled: recorded as declared-with-unknown-arity (-1)
    for hf in sorted(glob.glob(os.path.join(librt, "**", "*.[ch]"), recursive=True)):
        with open(hf, errors="replace") as fh:
            txt = fh.read()
        for mm in re.finditer(r"^\s*#\s*define\s+(\w+)(\()?", txt, re.M):
            if mm.group(1) not in macros and not mm.group(2):
                macros[mm.group(1)] = -1
        for mm in re.finditer(r"^[A-Za-z_][\w \*]*?\b(\w+)\s*\([^;{]*\)\s*\{", txt, re.M):
            if mm.group(1) not in funcs and mm.group(1) not in macros:
                macros[mm.group(1)] = -2  # defined in source but not in clang's AST (conditional compilation)
    os.makedirs(CACHE, exist_ok=True)
    old_entries = sorted(glob.glob(os.path.join(CACHE, "*.json")), key=os.path.getmtime)
    for stale in old_entries[:-8]:  # keep the cache small
        try:
            os.remove(stale)
        except OSError:
            pass
    with open(cpath + f".{os.getpid()}.tmp", "w") as fh:
        json.dump({"functions": funcs, "macros": macros, "unit_errors": errors}, fh)
    os.replace(cpath + f".{os.getpid()}.tmp", cpath)
    return funcs, macros


def _slim(n: dict) -> dict:
    """Reduce a clang JSON node to what the expression rules need."""
    out = {"kind": n.get("kind")}
    for k in ("opcode", "value", "name", "castKind", "argType"):
        if k in n:
            out[k] = n[k]
    if "referencedDecl" in n:
        out["ref"] = n["referencedDecl"].get("name")
    if "type" in n:
        out["type"] = n["type"].get("qualType")
    if n.get("kind") == "UnaryExprOrTypeTraitExpr":
        out["argType"] = (n.get("argType") or {}).get("qualType")
    inner = [c for c in (n.get("inner") or []) if isinstance(c, dict) and c.get("kind")]
    if inner:
        out["inner"] = [_slim(c) for c in inner]
    return out


def function_bodies(repo_root: str, header: str, names: list[str]) -> dict[str, dict]:
    """Slim expression trees of the named inline functions of a lib-rt header (clang -ast-dump-filter)."""
    librt = os.path.join(repo_root, "mypyc", "lib-rt")
    clang = shutil.which("clang") or shutil.which("clang-14")
    if clang is None:
        raise AnalysisError("clang not available")
    path = os.path.join(librt, header)
    h = hashlib.sha1()
    for f in sorted(glob.glob(os.path.join(librt, "*.h"))):
        with open(f, "rb") as fh:
            h.update(os.path.relpath(f, librt).encode() + b"\0" + fh.read())
    h.update(("|".join(names) + header).encode())
    if not header.endswith(".h"):
        with open(path, "rb") as fh:  # a .c translation unit: its own text is part of the key
            h.update(fh.read())
    h.update(_SELF_DIGEST)
    cpath = os.path.join(CACHE, "bodies_" + h.hexdigest() + ".json")
    if os.path.exists(cpath):
        with open(cpath) as fh:
            return json.load(fh)
    incs = [librt, py_include()]
    out: dict[str, dict] = {}
    for nm in names:
        cmd = [clang, "-fsyntax-only", "-Xclang", "-ast-dump=json", "-Xclang", f"-ast-dump-filter={nm}", "-w"] + [f"-I{i}" for i in incs] + [path]
        p = subprocess.run(cmd, capture_output=True, text=True, cwd=librt)
        txt = p.stdout
        dec = json.JSONDecoder()
        i = 0
        while i < len(txt):
            while i < len(txt) and txt[i] in " \n\r\t":
                i += 1
            if i >= len(txt):
                break
            try:
                d, j = dec.raw_decode(txt, i)
            except ValueError:
                nxt = txt.find("{", i + 1)
                if nxt < 0:
                    break
                i = nxt
                continue
            i = j
            if d.get("kind") == "FunctionDecl" and d.get("name") == nm and any(c.get("kind") == "CompoundStmt" for c in d.get("inner", []) if isinstance(c, dict)):
                out[nm] = _slim(d)
    os.makedirs(CACHE, exist_ok=True)
    with open(cpath + f".{os.getpid()}.tmp", "w") as fh:
        json.dump(out, fh)
    os.replace(cpath + f".{os.getpid()}.tmp", cpath)
    return out
