"""C front end for mypyc/lib-rt: clang's JSON AST, reduced to function signatures and return shapes.

`clang -fsyntax-only -Xclang -ast-dump=json` is run per translation unit with the interpreter's
include directory; the (large) dump is reduced in the worker to
  name -> {ret, params, variadic, has_body, returns: [NULL | int:<v> | call:<f> | other | void]}
and cached under /verif/.cache keyed by a digest of the unit, every lib-rt header and clang's
version.  Function-like macros come from `clang -E -dM` (name -> parameter count).
"""

from __future__ import annotations

import glob
import hashlib
import json
import os
import re
import shutil
import subprocess
import sys
from concurrent.futures import ProcessPoolExecutor

from .index import AnalysisError

VERIF = os.path.dirname(os.path.dirname(os.path.abspath(__file__)))
CACHE = os.path.join(VERIF, ".cache", "cfront")


def py_include() -> str:
    import sysconfig
    inc = sysconfig.get_paths()["include"]
    if not os.path.exists(os.path.join(inc, "Python.h")):
        for cand in glob.glob("/root/.pyenv/versions/*/include/python3.*") + glob.glob("/usr/include/python3.*"):
            if os.path.exists(os.path.join(cand, "Python.h")):
                return cand
        raise AnalysisError("Python.h not found")
    return inc


def _strip(x):
    while x.get("kind") in ("ImplicitCastExpr", "ParenExpr", "CStyleCastExpr", "ConstantExpr") and x.get("inner"):
        x = x["inner"][0]
    return x


def _is_null(e) -> bool:
    k = e.get("kind")
    if k == "ImplicitCastExpr" and e.get("castKind") == "NullToPointer":
        return True
    if k in ("ImplicitCastExpr", "ParenExpr", "CStyleCastExpr"):
        inner = e.get("inner", [])
        return bool(inner) and _is_null(inner[0])
    return k == "GNUNullExpr"


def _classify(e, rettype: str) -> str:
    if e is None:
        return "void"
    if "*" in rettype and _is_null(e):
        return "NULL"
    s = _strip(e)
    k = s.get("kind")
    if k == "IntegerLiteral":
        return "int:" + s.get("value", "?")
    if k == "UnaryOperator" and s.get("opcode") == "-":
        t = _strip(s["inner"][0])
        if t.get("kind") == "IntegerLiteral":
            return "int:-" + t.get("value", "?")
    if k == "CallExpr":
        cal = _strip(s["inner"][0])
        return "call:" + cal.get("referencedDecl", {}).get("name", "?")
    if k == "DeclRefExpr":
        return "ref:" + s.get("referencedDecl", {}).get("name", "?")
    return "other"


def _returns(node, out):
    if node.get("kind") == "ReturnStmt":
        inner = node.get("inner", [])
        out.append(inner[0] if inner else None)
        return
    for c in node.get("inner", []) or []:
        if isinstance(c, dict):
            _returns(c, out)


def _reduce(doc: dict) -> dict:
    res = {}
    for n in doc.get("inner", []):
        if n.get("kind") != "FunctionDecl":
            continue
        name = n.get("name")
        qt = n.get("type", {}).get("qualType", "")
        m = re.match(r"(.*?)\((.*)\)\s*$", qt)
        if not m:
            continue
        ret = m.group(1).strip()
        params = [c.get("type", {}).get("qualType", "") for c in n.get("inner", []) if c.get("kind") == "ParmVarDecl"]
        body = [c for c in n.get("inner", []) if c.get("kind") == "CompoundStmt"]
        ent = {"ret": ret, "params": params, "variadic": bool(n.get("variadic")), "has_body": bool(body), "returns": []}
        if body:
            out = []
            _returns(body[0], out)
            ent["returns"] = sorted({_classify(e, ret) for e in out})
        if name not in res or (ent["has_body"] and not res[name]["has_body"]):
            res[name] = ent
    return res


def _dump_unit(args) -> tuple[str, dict | str]:
    path, incs, clang = args
    cmd = [clang, "-fsyntax-only", "-Xclang", "-ast-dump=json", "-w"] + [f"-I{i}" for i in incs] + [path]
    p = subprocess.run(cmd, capture_output=True, cwd=os.path.dirname(path))
    if p.returncode != 0 and not p.stdout:
        return path, f"clang failed: {p.stderr.decode()[-400:]}"
    try:
        doc = json.loads(p.stdout)
    except ValueError as e:
        return path, f"unparseable clang output: {e}"
    return path, _reduce(doc)


def lib_rt_functions(repo_root: str) -> tuple[dict, dict]:
    """({name: signature entry}, {macro name: n_params}) for mypyc/lib-rt of the given tree."""
    librt = os.path.join(repo_root, "mypyc", "lib-rt")
    clang = shutil.which("clang") or shutil.which("clang-14")
    if clang is None:
        raise AnalysisError("clang not available: the C side of C05/C15 cannot be analysed")
    units = sorted(glob.glob(os.path.join(librt, "*.c")) + glob.glob(os.path.join(librt, "*", "*.c")))
    units = [u for u in units if os.path.basename(u) not in ("module_shim.c", "vec_template.c") and "/base64/" not in u]
    if len(units) < 10:
        raise AnalysisError("lib-rt translation units not found")
    incs = [librt, py_include()] + [d for d in sorted(glob.glob(os.path.join(librt, "*"))) if os.path.isdir(d)]
    h = hashlib.sha1()
    for f in sorted(glob.glob(os.path.join(librt, "**", "*.[ch]"), recursive=True)):
        with open(f, "rb") as fh:
            # relative names: scratch copies of an unchanged lib-rt share one cache entry
            h.update(os.path.relpath(f, librt).encode() + b"\0" + fh.read())
    h.update(subprocess.run([clang, "--version"], capture_output=True).stdout)
    with open(__file__, "rb") as fh:
        h.update(fh.read())
    key = h.hexdigest()
    cpath = os.path.join(CACHE, key + ".json")
    if os.path.exists(cpath):
        with open(cpath) as fh:
            d = json.load(fh)
        return d["functions"], d["macros"]
    funcs: dict = {}
    errors = []
    with ProcessPoolExecutor(max_workers=12) as ex:
        for path, res in ex.map(_dump_unit, [(u, incs, clang) for u in units]):
            if isinstance(res, str):
                errors.append(f"{os.path.basename(path)}: {res}")
                continue
            for name, ent in res.items():
                if name not in funcs or (ent["has_body"] and not funcs[name]["has_body"]):
                    funcs[name] = ent
    if errors and len(errors) > len(units) // 2:
        raise AnalysisError("clang could not parse lib-rt: " + "; ".join(errors[:3]))
    macros = {}
    p = subprocess.run([clang, "-E", "-dM", "-w"] + [f"-I{i}" for i in incs] + [os.path.join(librt, "CPy.h")], capture_output=True, text=True, cwd=librt)
    for line in p.stdout.splitlines():
        m = re.match(r"#define (\w+)\(([^)]*)\)", line)
        if m:
            macros[m.group(1)] = len([x for x in m.group(2).split(",") if x.strip()])
    # object-like macros of the capsule APIs (`#define X_internal (*(sig) Table[n])`) and names that are
    # only conditionally compiled: recorded as declared-with-unknown-arity (-1)
    for hf in sorted(glob.glob(os.path.join(librt, "**", "*.[ch]"), recursive=True)):
        with open(hf, errors="replace") as fh:
            txt = fh.read()
        for mm in re.finditer(r"^\s*#\s*define\s+(\w+)(\()?", txt, re.M):
            if mm.group(1) not in macros and not mm.group(2):
                macros[mm.group(1)] = -1
        for mm in re.finditer(r"^[A-Za-z_][\w \*]*?\b(\w+)\s*\([^;{]*\)\s*\{", txt, re.M):
            if mm.group(1) not in funcs and mm.group(1) not in macros:
                macros[mm.group(1)] = -2  # defined in source but not in clang's AST (conditional compilation)
    os.makedirs(CACHE, exist_ok=True)
    old_entries = sorted(glob.glob(os.path.join(CACHE, "*.json")), key=os.path.getmtime)
    for stale in old_entries[:-8]:  # keep the cache small
        try:
            os.remove(stale)
        except OSError:
            pass
    with open(cpath + f".{os.getpid()}.tmp", "w") as fh:
        json.dump({"functions": funcs, "macros": macros, "unit_errors": errors}, fh)
    os.replace(cpath + f".{os.getpid()}.tmp", cpath)
    return funcs, macros


def _slim(n: dict) -> dict:
    """Reduce a clang JSON node to what the expression rules need."""
    out = {"kind": n.get("kind")}
    for k in ("opcode", "value", "name", "castKind", "argType"):
        if k in n:
            out[k] = n[k]
    if "referencedDecl" in n:
        out["ref"] = n["referencedDecl"].get("name")
    if "type" in n:
        out["type"] = n["type"].get("qualType")
    if n.get("kind") == "UnaryExprOrTypeTraitExpr":
        out["argType"] = (n.get("argType") or {}).get("qualType")
    inner = [c for c in (n.get("inner") or []) if isinstance(c, dict) and c.get("kind")]
    if inner:
        out["inner"] = [_slim(c) for c in inner]
    return out


def function_bodies(repo_root: str, header: str, names: list[str]) -> dict[str, dict]:
    """Slim expression trees of the named inline functions of a lib-rt header (clang -ast-dump-filter)."""
    librt = os.path.join(repo_root, "mypyc", "lib-rt")
    clang = shutil.which("clang") or shutil.which("clang-14")
    if clang is None:
        raise AnalysisError("clang not available")
    path = os.path.join(librt, header)
    h = hashlib.sha1()
    for f in sorted(glob.glob(os.path.join(librt, "*.h"))):
        with open(f, "rb") as fh:
            h.update(os.path.relpath(f, librt).encode() + b"\0" + fh.read())
    h.update(("|".join(names) + header).encode())
    with open(__file__, "rb") as fh:
        h.update(fh.read())
    cpath = os.path.join(CACHE, "bodies_" + h.hexdigest() + ".json")
    if os.path.exists(cpath):
        with open(cpath) as fh:
            return json.load(fh)
    incs = [librt, py_include()]
    out: dict[str, dict] = {}
    for nm in names:
        cmd = [clang, "-fsyntax-only", "-Xclang", "-ast-dump=json", "-Xclang", f"-ast-dump-filter={nm}", "-w"] + [f"-I{i}" for i in incs] + [path]
        p = subprocess.run(cmd, capture_output=True, text=True, cwd=librt)
        txt = p.stdout
        dec = json.JSONDecoder()
        i = 0
        while i < len(txt):
            while i < len(txt) and txt[i] in " \n\r\t":
                i += 1
            if i >= len(txt):
                break
            try:
                d, j = dec.raw_decode(txt, i)
            except ValueError:
                nxt = txt.find("{", i + 1)
                if nxt < 0:
                    break
                i = nxt
                continue
            i = j
            if d.get("kind") == "FunctionDecl" and d.get("name") == nm and any(c.get("kind") == "CompoundStmt" for c in d.get("inner", []) if isinstance(c, dict)):
                out[nm] = _slim(d)
    os.makedirs(CACHE, exist_ok=True)
    with open(cpath + f".{os.getpid()}.tmp", "w") as fh:
        json.dump(out, fh)
    os.replace(cpath + f".{os.getpid()}.tmp", cpath)
    return out
