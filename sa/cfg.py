"""Statement-level control-flow graph for one function, with reachability / must-pass queries.

Nodes are simple statements or the *heads* of compound statements (an `if` test, a loop head,
the items of a `with`, an `except` clause).  `finally` bodies are duplicated per way of leaving
the `try` (normal, exception, return, break, continue), so path queries are exact with respect
to the statement structure.  Exceptional edges leave every node that may raise (see
`default_may_raise`) towards the innermost enclosing handlers / finally, else RAISE exit.
"""

from __future__ import annotations

import ast
from collections import deque
from typing import Callable, Iterable

from .index import AnalysisError


class Node:
    __slots__ = ("id", "kind", "stmt", "exprs", "succ", "pred", "copy_of")

    def __init__(self, id: int, kind: str, stmt=None, exprs=()):
        self.id = id
        self.kind = kind  # entry exit raise stmt test for-iter for-head with except match-subject case join
        self.stmt = stmt
        self.exprs = list(exprs)
        self.succ: list[tuple[Node, str]] = []
        self.pred: list[tuple[Node, str]] = []
        self.copy_of = None

    def __repr__(self):
        ln = getattr(self.stmt, "lineno", "-")
        return f"<{self.id}:{self.kind}@{ln}>"

    @property
    def lineno(self) -> int:
        return getattr(self.stmt, "lineno", 0) or 0

    def walk(self) -> Iterable[ast.AST]:
        """All AST nodes evaluated at this CFG node (not into nested defs / lambdas bodies kept)."""
        for e in self.exprs:
            todo = [e]
            while todo:
                n = todo.pop()
                yield n
                if isinstance(n, (ast.FunctionDef, ast.AsyncFunctionDef, ast.ClassDef)):
                    continue
                todo.extend(ast.iter_child_nodes(n))

    def calls(self) -> list[ast.Call]:
        return [n for n in self.walk() if isinstance(n, ast.Call)]


def default_may_raise(node: Node) -> bool:
    if node.kind in ("entry", "exit", "raise", "join", "except"):
        return False
    if isinstance(node.stmt, (ast.Raise, ast.Assert)) and node.kind == "stmt":
        return True
    if node.kind == "with":  # __enter__ may raise
        return True
    for n in node.walk():
        if isinstance(n, (ast.Call, ast.Await, ast.YieldFrom, ast.Yield)):
            return True
    return False


def _const_truth(e: ast.expr):
    if isinstance(e, ast.Constant):
        return bool(e.value)
    return None


class CFG:
    def __init__(self, func: ast.AST, may_raise: Callable[[Node], bool] = default_may_raise,
                 body: list[ast.stmt] | None = None, loops_at_least_once: bool = False):
        """loops_at_least_once: model every `for` as executing its body at least once (do-while).
        Used for ordering rules between consecutive loops over the same collection, where the
        zero-iteration path of one loop combined with a non-zero path of the next is infeasible."""
        self.func = func
        self.loops_at_least_once = loops_at_least_once
        self.nodes: list[Node] = []
        self.may_raise = may_raise
        self.entry = self._new("entry")
        self.exit = self._new("exit")
        self.raise_exit = self._new("raise")
        self.first_node: dict[ast.AST, list[Node]] = {}
        outs = self._block(body if body is not None else func.body, [(self.entry, "next")], [])
        self._connect(outs, self.exit)

    # ---- construction

    def _new(self, kind, stmt=None, exprs=()) -> Node:
        n = Node(len(self.nodes), kind, stmt, exprs)
        self.nodes.append(n)
        if stmt is not None:
            self.first_node.setdefault(stmt, []).append(n)
        return n

    def _connect(self, preds, node: Node) -> None:
        for p, lab in preds:
            if (node, lab) not in p.succ:
                p.succ.append((node, lab))
                node.pred.append((p, lab))

    def _simple(self, kind, stmt, exprs, preds, frames) -> Node:
        n = self._new(kind, stmt, exprs)
        self._connect(preds, n)
        if self.may_raise(n):
            self._jump([(n, "exc")], "exc", frames)
        return n

    def _jump(self, preds, kind: str, frames: list[dict]) -> None:
        """Route control leaving via return/break/continue/exc through the enclosing frames."""
        i = len(frames) - 1
        while i >= 0:
            fr = frames[i]
            if fr["type"] == "finally":
                key = ("copy", kind)
                if kind in ("exc", "return") and key in fr:
                    self._connect(preds, fr[key])
                    return
                join = self._new("join", fr["stmt"])
                self._connect(preds, join)
                if kind in ("exc", "return"):
                    fr[key] = join
                preds = self._block(fr["body"], [(join, "next")], frames[:i])
            elif fr["type"] == "loop" and kind in ("break", "continue"):
                if kind == "break":
                    fr["breaks"].extend(preds)
                else:
                    self._connect(preds, fr["head"])
                return
            elif fr["type"] == "try" and kind == "exc":
                for h in fr["handlers"]:
                    self._connect(preds, h)
                if fr["catch_all"]:
                    return
            i -= 1
        if kind == "exc":
            self._connect(preds, self.raise_exit)
        elif kind == "return":
            self._connect(preds, self.exit)
        else:
            raise AnalysisError(f"{kind} outside loop")

    def _block(self, stmts, preds, frames):
        for s in stmts:
            preds = self._stmt(s, preds, frames)
        return preds

    def _stmt(self, s, preds, frames):
        if isinstance(s, ast.If):
            t = self._simple("test", s, [s.test], preds, frames)
            tv = _const_truth(s.test)
            outs = []
            if tv is not False:
                outs += self._block(s.body, [(t, "true")], frames)
            if tv is not True:
                outs += self._block(s.orelse, [(t, "false")], frames)
            return outs
        if isinstance(s, ast.While):
            t = self._simple("test", s, [s.test], preds, frames)
            fr = {"type": "loop", "head": t, "breaks": []}
            tv = _const_truth(s.test)
            body_out = self._block(s.body, [(t, "true")], frames + [fr])
            self._connect(body_out, t)
            outs = []
            if tv is not True:
                outs += self._block(s.orelse, [(t, "false")], frames)
            return outs + fr["breaks"]
        if isinstance(s, (ast.For, ast.AsyncFor)):
            it = self._simple("for-iter", s, [s.iter], preds, frames)
            h = self._simple("for-head", s, [s.target], [(it, "next")], frames)
            if self.loops_at_least_once:
                back = self._new("for-head", s, [s.target])
                fr = {"type": "loop", "head": back, "breaks": []}
                first = self._new("join", s)
                self._connect([(h, "true"), (back, "true")], first)
                body_out = self._block(s.body, [(first, "next")], frames + [fr])
                self._connect(body_out, back)
                outs = self._block(s.orelse, [(back, "false")], frames)
                return outs + fr["breaks"]
            fr = {"type": "loop", "head": h, "breaks": []}
            body_out = self._block(s.body, [(h, "true")], frames + [fr])
            self._connect(body_out, h)
            outs = self._block(s.orelse, [(h, "false")], frames)
            return outs + fr["breaks"]
        if isinstance(s, (ast.With, ast.AsyncWith)):
            w = self._simple("with", s, [i for it in s.items for i in ([it.context_expr] + ([it.optional_vars] if it.optional_vars else []))], preds, frames)
            return self._block(s.body, [(w, "next")], frames)
        if isinstance(s, (ast.Try, getattr(ast, "TryStar", ast.Try))):
            inner = list(frames)
            if s.finalbody:
                inner = inner + [{"type": "finally", "body": s.finalbody, "stmt": s}]
            handlers = []
            catch_all = False
            for h in s.handlers:
                hn = self._new("except", h, [h.type] if h.type is not None else [])
                handlers.append(hn)
                if h.type is None or (isinstance(h.type, ast.Name) and h.type.id == "BaseException"):
                    catch_all = True
            body_frames = inner + ([{"type": "try", "handlers": handlers, "catch_all": catch_all, "stmt": s}] if handlers else [])
            outs = self._block(s.body, preds, body_frames)
            outs = self._block(s.orelse, outs, inner)
            for h, hn in zip(s.handlers, handlers):
                outs += self._block(h.body, [(hn, "next")], inner)
            if s.finalbody:
                join = self._new("join", s)
                self._connect(outs, join)
                outs = self._block(s.finalbody, [(join, "next")], frames)
            return outs
        if isinstance(s, ast.Match):
            subj = self._simple("match-subject", s, [s.subject], preds, frames)
            cur = [(subj, "next")]
            outs = []
            for c in s.cases:
                cn = self._simple("case", c, [c.pattern] + ([c.guard] if c.guard else []), cur, frames)
                outs += self._block(c.body, [(cn, "true")], frames)
                irrefutable = c.guard is None and (
                    (isinstance(c.pattern, ast.MatchAs) and c.pattern.pattern is None)
                )
                cur = [] if irrefutable else [(cn, "false")]
            return outs + cur
        if isinstance(s, ast.Return):
            n = self._simple("stmt", s, [s.value] if s.value else [], preds, frames)
            self._jump([(n, "return")], "return", frames)
            return []
        if isinstance(s, ast.Raise):
            n = self._new("stmt", s, [x for x in (s.exc, s.cause) if x is not None])
            self._connect(preds, n)
            self._jump([(n, "exc")], "exc", frames)
            return []
        if isinstance(s, ast.Break):
            n = self._simple("stmt", s, [], preds, frames)
            self._jump([(n, "break")], "break", frames)
            return []
        if isinstance(s, ast.Continue):
            n = self._simple("stmt", s, [], preds, frames)
            self._jump([(n, "continue")], "continue", frames)
            return []
        if isinstance(s, (ast.FunctionDef, ast.AsyncFunctionDef, ast.ClassDef)):
            n = self._simple("stmt", s, list(s.decorator_list), preds, frames)
            return [(n, "next")]
        if isinstance(s, ast.Assert):
            n = self._simple("stmt", s, [s.test] + ([s.msg] if s.msg else []), preds, frames)
            return [(n, "next")]
        # simple statements
        n = self._simple("stmt", s, [s], preds, frames)
        if _is_noreturn_call(s):
            return []
        return [(n, "next")]

    # ---- queries

    def nodes_of(self, stmt: ast.AST) -> list[Node]:
        return self.first_node.get(stmt, [])

    def find(self, pred: Callable[[Node], bool]) -> list[Node]:
        return [n for n in self.nodes if pred(n)]

    def reachable(self, srcs: Iterable[Node], avoiding: Iterable[Node] = (), labels_excluded=()) -> set[Node]:
        avoid = set(avoiding)
        seen = set()
        todo = deque(s for s in srcs)
        while todo:
            n = todo.popleft()
            if n in seen:
                continue
            seen.add(n)
            for m, lab in n.succ:
                if lab in labels_excluded or m in avoid or m in seen:
                    continue
                todo.append(m)
        return seen

    def must_pass(self, src: Node, targets: Iterable[Node], via: Iterable[Node], labels_excluded=()) -> bool:
        """Every path src ->* target passes a node of `via` (src itself counts)."""
        via = set(via)
        if src in via:
            return True
        r = self.reachable([src], via, labels_excluded)
        return not any(t in r for t in targets)

    def reachable_flag(self, src: Node, avoiding: Iterable[Node], var: str, labels_excluded=()) -> set[Node]:
        """Reachability that tracks one boolean local: `var = True/False` constant assignments are
        remembered and an `if var` / `if not var` test only follows the consistent edge (any other
        assignment makes the value unknown)."""
        avoid = set(avoiding)
        seen = set()
        todo = deque([(src, None)])
        while todo:
            n, val = todo.popleft()
            if (n, val) in seen:
                continue
            seen.add((n, val))
            st = n.stmt
            if n.kind == "stmt" and isinstance(st, (ast.Assign, ast.AnnAssign)):
                tg = st.targets[0] if isinstance(st, ast.Assign) else st.target
                if isinstance(tg, ast.Name) and tg.id == var:
                    v = st.value
                    val = v.value if isinstance(v, ast.Constant) and isinstance(v.value, bool) else None
            for m, lab in n.succ:
                if lab in labels_excluded or m in avoid:
                    continue
                if n.kind == "test" and val is not None and lab in ("true", "false"):
                    e = n.exprs[0]
                    if isinstance(e, ast.Name) and e.id == var and (lab == "true") != val:
                        continue
                    if isinstance(e, ast.UnaryOp) and isinstance(e.op, ast.Not) and isinstance(e.operand, ast.Name) and e.operand.id == var and (lab == "true") == val:
                        continue
                todo.append((m, val))
        return {n for n, _ in seen}

    def witness(self, src: Node, targets: Iterable[Node], avoiding: Iterable[Node] = (), labels_excluded=()) -> list[Node] | None:
        avoid, tg = set(avoiding), set(targets)
        prev = {src: None}
        todo = deque([src])
        while todo:
            n = todo.popleft()
            if n in tg and n is not src:
                path = []
                while n is not None:
                    path.append(n)
                    n = prev[n]
                return path[::-1]
            for m, lab in n.succ:
                if lab in labels_excluded or m in avoid or m in prev:
                    continue
                prev[m] = n
                todo.append(m)
        return None

    def dominators(self) -> dict[Node, set[Node]]:
        order = self._rpo()
        dom = {n: set(order) for n in order}
        dom[self.entry] = {self.entry}
        changed = True
        while changed:
            changed = False
            for n in order:
                if n is self.entry:
                    continue
                ps = [dom[p] for p, _ in n.pred if p in dom]
                new = set.intersection(*ps) if ps else set()
                new = new | {n}
                if new != dom[n]:
                    dom[n] = new
                    changed = True
        return dom

    def _rpo(self) -> list[Node]:
        seen, out = set(), []

        def dfs(n):
            stack = [(n, iter(n.succ))]
            seen.add(n)
            while stack:
                node, it = stack[-1]
                for m, _ in it:
                    if m not in seen:
                        seen.add(m)
                        stack.append((m, iter(m.succ)))
                        break
                else:
                    out.append(node)
                    stack.pop()

        dfs(self.entry)
        return out[::-1]

    def paths(self, src: Node, dst_pred: Callable[[Node], bool], limit: int = 20000, labels_excluded=("exc",)):
        """Enumerate acyclic paths (each node at most once) from src to nodes satisfying dst_pred.
        Yields lists of (node, label-taken-from-node | None)."""
        count = 0
        stack = [(src, [(src, None)], {src})]
        while stack:
            n, path, seen = stack.pop()
            if dst_pred(n) and n is not src:
                count += 1
                if count > limit:
                    raise AnalysisError("too many paths")
                yield path
                continue
            for m, lab in n.succ:
                if lab in labels_excluded or m in seen:
                    continue
                stack.append((m, path[:-1] + [(n, lab), (m, None)], seen | {m}))

    def fmt_path(self, path: list[Node], relpath: str) -> list[str]:
        out = []
        for n in path:
            if n.stmt is None:
                out.append(n.kind)
            else:
                txt = ast.unparse(n.exprs[0])[:70] if n.exprs else n.kind
                out.append(f"{relpath}:{n.lineno} [{n.kind}] {txt}")
        return out


def branch_conditions(parents: dict, func_node: ast.AST, node: ast.AST, early_exits: bool = False) -> tuple[list[ast.expr], list[ast.expr]]:
    """(conditions known true, conditions known false) at `node`, read off the enclosing if/else arms
    and, with early_exits, off the `if T: return/raise/continue/break` statements that precede it in its block."""
    pos, neg = [], []
    cur = node
    while cur is not None and cur is not func_node:
        p = parents.get(cur)
        for fld in ("body", "orelse", "finalbody") if early_exits and p is not None else ():
            blk = getattr(p, fld, None)
            if isinstance(blk, list) and any(cur is x for x in blk):
                for prev in blk[: [i for i, x in enumerate(blk) if x is cur][0]]:
                    if isinstance(prev, ast.If) and not prev.orelse and prev.body and isinstance(prev.body[-1], (ast.Return, ast.Raise, ast.Continue, ast.Break)):
                        neg.extend(prev.test.values if isinstance(prev.test, ast.BoolOp) and isinstance(prev.test.op, ast.Or) else [prev.test])
        if isinstance(p, ast.If):
            if any(cur is x for x in p.body):
                pos.extend(p.test.values if isinstance(p.test, ast.BoolOp) and isinstance(p.test.op, ast.And) else [p.test])
            elif any(cur is x for x in p.orelse):
                neg.extend(p.test.values if isinstance(p.test, ast.BoolOp) and isinstance(p.test.op, ast.Or) else [p.test])
        cur = p
    return pos, neg


def _is_noreturn_call(s: ast.stmt) -> bool:
    if isinstance(s, ast.Expr) and isinstance(s.value, ast.Call):
        f = s.value.func
        name = f.attr if isinstance(f, ast.Attribute) else getattr(f, "id", "")
        if name in ("exit", "_exit", "hard_exit") and (
            not isinstance(f, ast.Attribute) or ast.unparse(f.value) in ("sys", "os", "util")
        ):
            return True
    return False


def call_name(c: ast.Call) -> str:
    f = c.func
    if isinstance(f, ast.Attribute):
        return f.attr
    if isinstance(f, ast.Name):
        return f.id
    return ""


def nodes_calling(cfg: CFG, names: Iterable[str], receiver: Callable[[ast.expr], bool] | None = None) -> list[Node]:
    names = set(names)
    out = []
    for n in cfg.nodes:
        for c in n.calls():
            if call_name(c) in names:
                if receiver is None or (isinstance(c.func, ast.Attribute) and receiver(c.func.value)):
                    out.append(n)
                    break
    return out
