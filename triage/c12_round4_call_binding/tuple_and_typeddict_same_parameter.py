# cd /repo && /venv/bin/python -m mypy --no-incremental tuple_and_typeddict_same_parameter.py  -> Success
# python tuple_and_typeddict_same_parameter.py -> TypeError: f() got multiple values for argument 'a'
from typing import TypedDict


class TDa(TypedDict):
    a: int


td = TDa(a=1)


def f(a: int) -> None:
    pass


f(*(1,), **td)
