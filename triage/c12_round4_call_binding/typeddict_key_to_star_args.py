from typing import TypedDict
class TDa(TypedDict):
    a: int
td = TDa(a=1)
def g(*a: str) -> None: pass
g(**td)
g(a=1)
def g2(*a: str, **kw: int) -> None: pass
g2(**td)
def g3(*a: str, **kw: str) -> None: pass
g3(**td)
