# A failed meta write must not be followed by a meta_ex write: old meta + new meta_ex replays the
# errors of the intermediate version after the edit is reverted.  Usage: bash <this> [tree]
set -e
T=${1:-/repo}; d=$(mktemp -d); mkdir $d/proj; cd $d/proj
cat > $d/drv.py <<'P'
import sys, os
sys.path.insert(0, os.environ["TREE"])
import mypy.metastore as ms
fail = os.environ.get("FAIL_ON")
if fail:
    for cls in (ms.FilesystemMetadataStore, ms.SqliteMetadataStore):
        orig = cls.write
        def w(self, name, data, mtime=None, _o=orig):
            if name.endswith(fail):
                return False
            return _o(self, name, data, mtime)
        cls.write = w
from mypy.main import main
main(args=sys.argv[1:])
P
export TREE=$T; M="/venv/bin/python $d/drv.py --no-sqlite-cache --cache-dir $d/cache"
printf 'def f() -> int:\n    return 1\n' > a.py; $M a.py >/dev/null; sleep 1.1
printf 'def f() -> int:\n    return "x"\n' > a.py; FAIL_ON=a.meta.ff $M a.py >/dev/null || true; sleep 1.1
printf 'def f() -> int:\n    return 1\n' > a.py
echo "--- warm after revert (cold: Success)"; $M a.py || true
