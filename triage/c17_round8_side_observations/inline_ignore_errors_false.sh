#!/bin/bash
# inline `# mypy: ignore-errors=False` vs `[mypy-a] ignore_errors = True`: default parser reports, native parser did not (before the /repo fix)
REPO=${1:-/repo}; T=$(mktemp -d); cd $T
printf '# mypy: ignore-errors=False\nx: int = "a"\n' > a.py; printf 'import a\n' > b.py
printf '[mypy]\nlocal_partial_types = True\n[mypy-a]\nignore_errors = True\n' > mypy.ini
echo "-- default"; PYTHONPATH=$REPO /venv/bin/python -m mypy --cache-dir /dev/null a.py b.py
echo "-- native";  PYTHONPATH=$REPO /venv/bin/python -m mypy --cache-dir /dev/null --native-parser a.py b.py
rm -rf $T
