#!/bin/bash
# 'later unstructured section wins' when the pattern was already named in an earlier comma list
REPO=${1:-/repo}; T=$(mktemp -d); mkdir -p $T/p/x; cd $T; touch p/__init__.py p/x/__init__.py
printf 'def f(x): return x\n' > p/x/b.py
printf '[mypy]\n[mypy-*.b, zz]\ndisallow_untyped_defs = False\n[mypy-p.*.b]\ndisallow_untyped_defs = True\n[mypy-*.b]\ndisallow_untyped_defs = False\n' > mypy.ini
PYTHONPATH=$REPO /venv/bin/python -m mypy --cache-dir /dev/null p   # before the fix: no-untyped-def error; after: Success
rm -rf $T
