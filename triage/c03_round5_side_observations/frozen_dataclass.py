# frozen-ness of a dataclass: Var.is_property of the fields
STEPS = [
 {"main.py": "from a import C\ndef g() -> None:\n    C(1).x = 1\n", "a.py": "from dataclasses import dataclass\n@dataclass\nclass C:\n    x: int\n"},
 {"a.py": "from dataclasses import dataclass\n@dataclass(frozen=True)\nclass C:\n    x: int\n"},
 {"a.py": "from dataclasses import dataclass\n@dataclass\nclass C:\n    x: int\n"},
]
