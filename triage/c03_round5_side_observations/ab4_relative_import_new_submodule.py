FILES = ["main.py"]
STEPS = [
 {"main.py": "import p.a\n", "p/__init__.py": "", "p/a.py": "from . import b\nb.f(1)\n"},
 {"p/b.py": "def f(x: str) -> None: pass\n"},
 {"p/b.py": "def f(x: int) -> None: pass\n"},
 {"p/b.py": None},
]
