# protocol deps filter: module name containing "typing"
STEPS = [
 {"main.py": "from typing import Iterable\nfrom mytyping_impl import A\ndef f(x: Iterable[int]) -> None: pass\ndef g() -> None:\n    f(A())\n",
  "mytyping_impl.py": "from typing import Iterator\nclass A:\n    def __iter__(self) -> Iterator[int]: ...\n"},
 {"mytyping_impl.py": "from typing import Iterator\nclass A:\n    def __iter__(self) -> Iterator[str]: ...\n"},
]
