# ClassVar-ness of a Var is not in the snapshot
STEPS = [
 {"main.py": "from a import C\ndef g() -> None:\n    C().x = 1\n", "a.py": "class C:\n    x: int = 0\n"},
 {"a.py": "from typing import ClassVar\nclass C:\n    x: ClassVar[int] = 0\n"},
 {"a.py": "class C:\n    x: int = 0\n"},
]
