import os, sys
sys.path.insert(0, sys.argv[1])
from mypy import api
os.chdir("/tmp/tri_c10d/proj")
open(".gitignore", "w").write("bad.py\n")
print(api.run(["--no-incremental", "--exclude-gitignore", "pkg"])[0].strip())
os.remove(".gitignore")
print(api.run(["--no-incremental", "--exclude-gitignore", "pkg"])[0].strip())
