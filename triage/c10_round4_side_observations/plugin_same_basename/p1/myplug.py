from mypy.plugin import Plugin
class P(Plugin):
    def get_function_hook(self, fullname):
        if fullname == "m.f":
            return lambda ctx: ctx.api.named_generic_type("builtins.str", [])
        return None
def plugin(version):
    return P
