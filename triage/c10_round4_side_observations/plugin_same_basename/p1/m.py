def f() -> int:
    return 1
reveal_type(f())
