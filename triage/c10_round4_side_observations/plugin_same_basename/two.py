import os, sys
sys.path.insert(0, sys.argv[1])
from mypy import api
def run(d):
    os.chdir("/tmp/tri_c10d/pl/" + d)
    return api.run(["--no-incremental", "--config-file", "mypy.ini", "m.py"])[0].strip().splitlines()[0]
if len(sys.argv) > 2:
    print("p2 alone :", run("p2"))
else:
    print("p1       :", run("p1"))
    print("p2 after :", run("p2"))
