from mypy.plugin import Plugin
class P(Plugin):
    pass
def plugin(version):
    return P
