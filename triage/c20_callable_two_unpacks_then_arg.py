from typing import Callable, TypeVarTuple, Unpack
Ts = TypeVarTuple("Ts"); Us = TypeVarTuple("Us")
def f(x: Callable[[Unpack[Ts], Unpack[Us], int], int]) -> None: ...
def h(a: int, b: str) -> int: return 0
f(h)
