#!/bin/bash
# a.pyi with the text of a.py appears: the warm run replayed a.py's diagnostics (before /repo 7d7205a)
REPO=${1:-/repo}; T=$(mktemp -d); cd $T
printf 'def f() -> int: ...\n' > a.py; printf 'import a\n' > main.py
PYTHONPATH=$REPO /venv/bin/python -m mypy --cache-dir C main.py a.py
sleep 1; cp a.py a.pyi
echo "-- warm"; PYTHONPATH=$REPO /venv/bin/python -m mypy --cache-dir C main.py
echo "-- cold"; PYTHONPATH=$REPO /venv/bin/python -m mypy --cache-dir F main.py
rm -rf $T
