#!/usr/bin/env python3
"""Triage helper (run by hand, not part of any check): for each (flags, program) run mypy with a
cache warmed WITHOUT the flags, then WITH them (warm), and compare with a cold run WITH them.
Usage: /venv/bin/python triage/c09_warm_vs_cold.py [name ...]"""
import os, shutil, subprocess, sys, tempfile

PY = "/venv/bin/python"
CASES = {
    "warn_redundant_casts": (["--warn-redundant-casts"], {"m.py": "from typing import cast\nx: int = 1\ny = cast(int, x)\n"}),
    "report_deprecated_as_note": (["--report-deprecated-as-note", "--enable-error-code", "deprecated"], {"m.py": "from typing_extensions import deprecated\n@deprecated('no')\ndef f() -> None: ...\nf()\n"}),
    "deprecated_calls_exclude": (["--deprecated-calls-exclude", "m", "--enable-error-code", "deprecated"], {"m.py": "from typing_extensions import deprecated\n@deprecated('no')\ndef f() -> None: ...\nf()\n"}),
    "show_error_context": (["--show-error-context"], {"m.py": "def f() -> None:\n    x: int = ''\n"}),
    "show_absolute_path": (["--show-absolute-path"], {"m.py": "x: int = ''\n"}),
    "show_error_code_links": (["--show-error-code-links"], {"m.py": "x: int = ''\n"}),
    "hide_error_codes": (["--hide-error-codes", "--show-error-code-links"], {"m.py": "x: int = ''\n"}),
    "semantic_analysis_only": (["--semantic-analysis-only"], {"m.py": "x: int = ''\n"}),
    "allow_empty_bodies": (["--allow-empty-bodies"], {"m.py": "def f() -> int: ...\n"}),
    "many_errors_threshold": (["--soft-error-limit", "1"], {"m.py": "import nonexist1\nimport nonexist2\nx: int = ''\ny: int = ''\nz: int = ''\n"}),
    "warn_incomplete_stub": (["--warn-incomplete-stub", "--custom-typeshed-dir", "TS"], None),
    "custom_typing_module": (["--custom-typing-module", "mytyping"], {"m.py": "from mytyping import List\nx: List[int] = ['']\n", "mytyping.py": "List = 1\n"}),
}


def run(flags, cwd, base=()):
    p = subprocess.run([PY, "-m", "mypy", "--no-error-summary", "--cache-dir", ".cache", *base, *flags, "m.py"], cwd=cwd, capture_output=True, text=True)
    return p.returncode, p.stdout + p.stderr


def main():
    names = sys.argv[1:] or list(CASES)
    for name in names:
        flags, files = CASES[name]
        if files is None:
            print(f"{name}: needs a hand-made typeshed; skipped")
            continue
        d = tempfile.mkdtemp(prefix="c09_")
        try:
            for fn, src in files.items():
                with open(os.path.join(d, fn), "w") as f:
                    f.write(src)
            # some flags are only meaningful together with a base flag present in both runs
            base = [x for x in flags if x in ("--enable-error-code", "deprecated")]
            toggled = [x for x in flags if x not in base] if name != "hide_error_codes" else ["--hide-error-codes"]
            if name == "hide_error_codes":
                base = ["--show-error-code-links"]
            run(base, d, ())                       # warm the cache without the toggled flags
            warm = run(toggled, d, base)
            shutil.rmtree(os.path.join(d, ".cache"))
            cold = run(toggled, d, base)
            same = warm == cold
            print(f"{name}: {'same' if same else 'DIFFERENT'}")
            if not same:
                print("  warm:", warm)
                print("  cold:", cold)
        finally:
            shutil.rmtree(d, ignore_errors=True)


if __name__ == "__main__":
    main()
