from typing import TypeVar
T = TypeVar("T")
def f(x: T) -> T: return x
reveal_type(f)
