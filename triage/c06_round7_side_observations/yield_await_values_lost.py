from typing import Any, Awaitable, Generator
async def two(a: Awaitable[object], b: Awaitable[object]) -> list[object]:
    return [await a, await b]
async def two_any(a: Any, b: Any) -> Any:
    return (await a, await b)
def inner() -> Generator[int, object, object]:
    x = yield 1
    return x
def two_yield_from() -> Generator[int, object, list[object]]:
    return [(yield from inner()), (yield from inner())]
def two_yields() -> Generator[int, object, list[object]]:
    return [(yield 1), (yield 2)]
