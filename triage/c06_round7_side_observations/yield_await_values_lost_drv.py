import m
class Once:
    def __init__(self, v): self.v = v
    def __await__(self):
        yield "suspended"
        return self.v
def drive(g, sends):
    try:
        g.send(None)
        for s in sends: g.send(s)
    except StopIteration as e:
        return e.value
print(repr(drive(m.two_yields(), ["a", "b"])))
print(drive(m.two(Once("a"), Once("b")), [None, None]))
print(drive(m.two_any(Once("a"), Once("b")), [None, None]))
print(drive(m.two_yield_from(), [None, "a", None, "b"]))
