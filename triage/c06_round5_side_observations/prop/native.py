from typing import Tuple


class P:
    def __init__(self) -> None:
        self._v = 0
        self._t: Tuple[object, int] = (None, 0)

    @property
    def v(self) -> int:
        return self._v

    @v.setter
    def v(self, value: int) -> None:
        self._v = value

    @property
    def t(self) -> Tuple[object, int]:
        return self._t

    @t.setter
    def t(self, value: Tuple[object, int]) -> None:
        self._t = value
