import sys
import native


class Token:
    pass


p = native.P()
big = 2**100 + 12345
before = sys.getrefcount(big)
for i in range(1000):
    p.v = big
p.v = 0
tok = Token()
before_t = sys.getrefcount(tok)
for i in range(1000):
    p.t = (tok, i)
p.t = (None, 0)
print("int:", before, "->", sys.getrefcount(big), " tuple item:", before_t, "->", sys.getrefcount(tok))
