from typing import List

from mypy_extensions import i64


def set0(lst: List[object], v: object) -> None:
    lst[0] = v


def set_i64(lst: List[object], i: i64, v: object) -> None:
    lst[i] = v
