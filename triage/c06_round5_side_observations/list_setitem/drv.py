import sys
import native

which = sys.argv[1]
if which == "reentrant":
    lst = []

    class Evil:
        def __del__(self):
            lst.clear()

    lst.append(Evil())
    lst.append(2)
    native.set0(lst, 1)   # interpreted: lst is [] afterwards
    print(lst)
else:
    try:
        native.set_i64([], 0, 1)   # interpreted: IndexError
    except IndexError as e:
        print("IndexError", e)
