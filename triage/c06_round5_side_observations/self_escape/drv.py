import sys, native
which = sys.argv[1]
try:
    if which == "2":
        native.Node2(native.Registry())
    else:
        native.run3()
except AttributeError as e:
    print("AttributeError", e)
