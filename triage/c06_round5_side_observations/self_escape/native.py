from typing import Any, Optional


class Registry:
    def __init__(self) -> None:
        self.item: Optional["Node2"] = None

    def poke(self) -> str:
        item = self.item
        assert item is not None
        return item.name


class Node2:
    def __init__(self, reg: Registry) -> None:
        reg.item = self
        reg.poke()
        self.name = "n"


def peek(n: "Node3") -> str:
    return n.name


class Node3:
    def __init__(self, cb: Any) -> None:
        cb(self)
        self.name = "n"


def run3() -> None:
    Node3(peek)
