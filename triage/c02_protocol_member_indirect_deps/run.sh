#!/bin/bash
# usage: run.sh <tree> <case dir with a.py b.py c_v1.py c_v2.py>
tree=$1; case=$2
w=$(mktemp -d); cp $case/a.py $case/b.py $w/; cp $case/c_v1.py $w/c.py
cd $w
PYTHONPATH=$tree /venv/bin/python -m mypy --no-error-summary a.py b.py c.py > /dev/null 2>&1
sleep 1.1; cp $case/c_v2.py c.py
echo "-- warm"; PYTHONPATH=$tree /venv/bin/python -m mypy --no-error-summary a.py b.py c.py; echo "rc=$?"
echo "-- cold"; PYTHONPATH=$tree /venv/bin/python -m mypy --no-error-summary --cache-dir=$w/cold a.py b.py c.py; echo "rc=$?"
rm -rf $w
