from b import B
class X:
    def m(self) -> int: return 0
B() + X()
B()[X()]
B()(X())
