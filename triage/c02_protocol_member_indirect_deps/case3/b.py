from c import C
class B:
    def __add__(self, other: C) -> int: return 0
    def __getitem__(self, other: C) -> int: return 0
    def __call__(self, other: C) -> int: return 0
