from b import use
class Impl:
    x: int
use(Impl())
