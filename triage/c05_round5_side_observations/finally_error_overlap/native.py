from mypy_extensions import i64


def ret_i64(x: i64) -> i64:
    try:
        return x
    finally:
        pass
    return 0


def ret_float(x: float) -> float:
    try:
        return x
    finally:
        pass
    return 0.0
