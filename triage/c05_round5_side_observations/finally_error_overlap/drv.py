import native
print(native.ret_i64(-113), native.ret_float(-113.0))   # interpreted: -113 -113.0
