from typing import List


def grow(a: List[int]) -> int:
    a.append(7)
    return -1


def comp_grow(a: List[int]) -> List[int]:
    return [grow(a) if x == 0 else x for x in a]


def comp_shrink(a: List[int]) -> List[int]:
    return [a.pop() if x == 0 else x for x in a]
