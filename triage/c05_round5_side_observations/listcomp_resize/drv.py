import sys
import native
if sys.argv[1] == "grow":
    print(native.comp_grow([0, 1]))        # interpreted: [-1, 1, 7]
else:
    r = native.comp_shrink([0, 1, 2, 3])   # interpreted: [3, 1, 2]
    print(len(r))
    print(r)
