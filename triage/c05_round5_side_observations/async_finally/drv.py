import native
print(native.__file__.endswith(".py") and "interpreted" or "compiled", native.run([0, 1]), native.run([0, 2]), native.run([0, 1, 2]))
# interpreted: end KeyError KeyError
