import asyncio
from typing import List


async def nop() -> None:
    await asyncio.sleep(0)


async def f(items: List[int]) -> str:
    for i in items:
        try:
            try:
                if i == 0:
                    return "early"
                if i == 2:
                    raise KeyError("boom")
            finally:
                await nop()
                if i == 0:
                    raise ValueError("cleanup failed")
        except ValueError:
            pass
    return "end"


def run(items: List[int]) -> str:
    try:
        return asyncio.run(f(items))
    except KeyError as e:
        return "KeyError"
