import native
print(native.bslice(b"abc", 2, 1))   # interpreted: b''
try:
    native.tob(1, -1)
except Exception as e:
    print(type(e).__name__, e)        # interpreted: ValueError length argument must be non-negative
