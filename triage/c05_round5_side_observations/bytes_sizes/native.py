def bslice(b: bytes, i: int, j: int) -> bytes:
    return b[i:j]


def tob(n: int, length: int) -> bytes:
    return n.to_bytes(length, "big")
