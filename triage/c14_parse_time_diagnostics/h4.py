from typing import Callable
from mypy_extensions import Arg
n = "x"
f: Callable[[Arg(int, name=n)], int]
