def g():
    type A = (yield)
