def g():
    type A = (y := int)
