async def g():
    type A = (await g())
