x = 1  # type: ignore[
