import sys, os
sys.path.insert(0, sys.argv[1])
from mypy import build
from mypy.options import Options
from mypy.modulefinder import BuildSource
from mypy.types import Instance
from mypy.typeops import type_object_type
from mypy.subtypes import is_subtype, is_proper_subtype
from mypy.typestate import type_state
o = Options(); o.incremental = False; o.cache_dir = os.devnull
r = build.build([BuildSource("" + os.path.dirname(os.path.abspath(__file__)) + "/prog.py", "prog")], o)
t = r.files["prog"].names
C = Instance(t["C"].node, []); P = Instance(t["P"].node, [])
def named(n):
    b = r.files["builtins"].names[n.split(".")[-1]].node
    return Instance(b, [])
Cobj = type_object_type(t["C"].node)
for order in ("cold", "warm"):
    type_state.reset_all_subtype_caches()
    if order == "warm":
        print("Type[C] <p: P", is_proper_subtype(Cobj, P), "  Type[C] <: P", is_subtype(Cobj, P))
    print(order, "C <p: P =", is_proper_subtype(C, P), " C <: P =", is_subtype(C, P))
