from typing import Protocol, TypeVar, Generic

T = TypeVar("T", covariant=True)

class P(Protocol[T]):
    def m(self) -> T: ...
    def __call__(self, x: int) -> int: ...

class C:
    def m(self) -> int: ...
