import sys, os
sys.path.insert(0, sys.argv[1])
from mypy import build
from mypy.options import Options
from mypy.modulefinder import BuildSource
from mypy.types import Instance, AnyType, TypeOfAny
from mypy.subtypes import is_subtype, is_proper_subtype
from mypy.constraints import infer_constraints, SUPERTYPE_OF
from mypy.typestate import type_state
o = Options(); o.incremental = False; o.cache_dir = os.devnull
r = build.build([BuildSource("" + os.path.dirname(os.path.abspath(__file__)) + "/prog3.py", "prog3")], o)
t = r.files["prog3"].names
Pinfo = t["P"].node
tv = Pinfo.defn.type_vars[0]
Ptemplate = Instance(Pinfo, [tv])
Pany = Instance(Pinfo, [AnyType(TypeOfAny.special_form)])
C = Instance(t["C"].node, [])
for order in ("cold", "warm"):
    type_state.reset_all_subtype_caches()
    if order == "warm":
        print("constraints:", infer_constraints(Ptemplate, C, SUPERTYPE_OF))
    print(order, "C <: P[Any] (ignore_pos_arg_names) =", is_subtype(C, Pany, ignore_pos_arg_names=True))
