from typing import Final
args = (1,)
kw = {"a": 1}
'{:c}'.format(*args)
'{a:c}'.format(**kw)
