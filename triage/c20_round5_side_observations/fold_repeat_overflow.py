from typing import Final
X: Final = 9223372036854775808 * ''
Y: Final = '' * 9223372036854775808
