from typing import Generic, TypeVar
class A(B[A]): pass
class B(A, Generic[T]): pass
T = TypeVar("T", bound=A)
