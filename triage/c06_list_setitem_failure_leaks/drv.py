import sys, m
print("compiled" if m.__file__.endswith(".so") else "interpreted")
o = object()
lst = [None]
before = sys.getrefcount(o)
for _ in range(1000):
    m.set_item(lst, 5, o)
after = sys.getrefcount(o)
print("refcount before", before, "after", after)
sys.exit(0 if after == before else 1)
