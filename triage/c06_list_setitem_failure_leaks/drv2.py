import sys, m2
o = object(); lst = [None]
b = sys.getrefcount(o)
for _ in range(1000):
    m2.set_item64(lst, 5, o); m2.set_item64(lst, -7, o)
a = sys.getrefcount(o)
print("i64 failing: before", b, "after", a)
for _ in range(1000):
    m2.set_ok(lst, 0, o); m2.set_ok(lst, -1, o)
a2 = sys.getrefcount(o)
print("successful stores: after", a2, "(one held by the list)")
sys.exit(0 if a == b and a2 == b + 1 else 1)
