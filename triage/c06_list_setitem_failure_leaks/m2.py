from typing import List
from mypy_extensions import i64

def set_item64(lst: List[object], i: i64, v: object) -> bool:
    try:
        lst[i] = v
    except IndexError:
        return False
    return True

def set_ok(lst: List[object], i: int, v: object) -> None:
    lst[i] = v
