from typing import List

def set_item(lst: List[object], i: int, v: object) -> bool:
    try:
        lst[i] = v
    except IndexError:
        return False
    return True
