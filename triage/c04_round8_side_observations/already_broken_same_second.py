"""Unmodified tree: data_mtime is compared with one-second resolution (BuildManager.getmtime
truncates to int), so a data record rewritten within the same second as its predecessor is
trusted with the predecessor's meta record.   usage: python c04h_samesec2.py <tree> """
import os, shutil, sys, tempfile, time
tree = os.path.abspath(sys.argv[1])
sys.path.insert(0, tree)
import mypy.api, mypy.metastore as ms, mypy.build  # pre-import so that forked runs are fast

A_V1 = "def f() -> int:\n    return 1\n"
A_V2 = "def f() -> str:\n    return ''\n"
B = "import a\nx: int = a.f()\n"
C = "import a\ny: str = a.f()\n"

def w(p, s):
    with open(p, "w") as f: f.write(s)

def forked_run(args, kill=False):
    r, wr = os.pipe()
    pid = os.fork()
    if pid == 0:
        os.close(r)
        if kill:
            for cls in (ms.FilesystemMetadataStore, ms.SqliteMetadataStore):
                def remove(self, name, orig=cls.remove):
                    if os.path.basename(name).startswith("a.meta_ex."):
                        os._exit(137)   # "SIGKILL" right after a's data record was committed
                    return orig(self, name)
                cls.remove = remove
        out, err, rc = mypy.api.run(args)
        os.write(wr, (out + err).encode()); os._exit(rc)
    os.close(wr)
    data = b""
    while True:
        chunk = os.read(r, 65536)
        if not chunk: break
        data += chunk
    _, st = os.waitpid(pid, 0)
    return os.waitstatus_to_exitcode(st), data.decode()

def attempt(flag):
    d = tempfile.mkdtemp(prefix="c04h-ss-"); os.chdir(d)
    try:
        base = ["--no-error-summary", flag]
        warm = base + ["--cache-dir", "cache"]
        w("e.py", ""); forked_run(warm + ["e.py"])          # builtins etc. into the cache
        w("a.py", A_V1); w("b.py", B)
        time.sleep(1.0 - (time.time() % 1.0) + 0.02)        # just after a second boundary
        t0 = time.time()
        rc, out = forked_run(warm + ["b.py"]); assert rc == 0, out
        w("a.py", A_V2)
        rc, out = forked_run(warm + ["b.py"], kill=True); assert rc == 137, (rc, out)
        t1 = time.time()
        time.sleep(1.2)
        w("a.py", A_V1); w("c.py", C)
        warm_res = forked_run(warm + ["b.py", "c.py"])
        cold_res = forked_run(base + ["--cache-dir", "cold", "b.py", "c.py"])
        return int(t0) == int(t1), t1 - t0, warm_res, cold_res
    finally:
        os.chdir("/"); shutil.rmtree(d, ignore_errors=True)

bad = 0
for flag in ("--sqlite-cache", "--no-sqlite-cache"):
    for i in range(5):
        same, dt, wr_, cr = attempt(flag)
        print(flag, "attempt", i, f"runs 1+2 took {dt:.2f}s, same second: {same}; warm==cold: {wr_ == cr}")
        if wr_ != cr:
            bad += 1
            print("   warm:", wr_); print("   cold:", cr)
            break
sys.exit(1 if bad else 0)
