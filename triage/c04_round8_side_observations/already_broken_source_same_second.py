import os, shutil, sys, tempfile, time
tree = os.path.abspath(sys.argv[1]); sys.path.insert(0, tree)
import mypy.api, mypy.build
def w(p, s):
    with open(p, "w") as f: f.write(s)
def run(args):
    r, wr = os.pipe(); pid = os.fork()
    if pid == 0:
        out, err, rc = mypy.api.run(args); os.write(wr, (out+err).encode()); os._exit(rc)
    os.close(wr); data = b""
    while True:
        c = os.read(r, 65536)
        if not c: break
        data += c
    _, st = os.waitpid(pid, 0); return os.waitstatus_to_exitcode(st), data.decode()
d = tempfile.mkdtemp(); os.chdir(d)
base = ["--no-error-summary"]
w("e.py", ""); run(base + ["e.py"])
time.sleep(1.0 - (time.time() % 1.0) + 0.02)
w("a.py", "x: int = 1\n"); t0=time.time()
print(run(base + ["a.py"]))
w("a.py", "x: str = 1\n"); t1=time.time()
print("same second:", int(t0)==int(t1))
print("warm:", run(base + ["a.py"]))
print("cold:", run(base + ["--cache-dir", "cold", "a.py"]))
os.chdir("/"); shutil.rmtree(d)
