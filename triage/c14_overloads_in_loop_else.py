from typing import overload

for x in [1]:
    pass
else:
    @overload
    def f(a: int) -> int: ...
    @overload
    def f(a: str) -> str: ...
    def f(a): return a

while False:
    pass
else:
    @overload
    def g(a: int) -> int: ...
    @overload
    def g(a: str) -> str: ...
    def g(a): return a

reveal_type(f)
reveal_type(g)
