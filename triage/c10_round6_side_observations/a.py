# mypy: no-strict-optional
from c import B
B("x")
reveal_type(B)
