from c import B
B("x")
reveal_type(B)
