import sys
from mypy import api
open('/tmp/t10_m.py','w').write('class A:\n    def f(self) -> None: ...\nA().f()\n')
print(api.run(["--no-incremental", "--find-occurrences", "A.f", "/tmp/t10_m.py"])[0])
print(api.run(["--no-incremental", "/tmp/t10_m.py"])[0])
