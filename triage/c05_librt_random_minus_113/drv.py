import sys
import m
from librt.random import Random
print("compiled" if m.__file__.endswith(".so") else "interpreted")
print("f", m.f(-113, -113))
print("g", m.g(Random(1), -113, -113))
print("h", m.h(-113, -112))
