from mypy_extensions import i64
from librt.random import Random, randint, randrange

def f(a: i64, b: i64) -> i64:
    return randint(a, b)

def g(r: Random, a: i64, b: i64) -> i64:
    return r.randint(a, b)

def h(a: i64, b: i64) -> i64:
    return randrange(a, b)
