from typing import TypeVar, Generic, List
class D(Generic[T]):
    x: List[T]
T = TypeVar('T', bound='C')
class C(C): pass
