# mypy -n 2 -c '<program with an error>' reported "Success" (sequential: 1 error, exit 1)
d=$(mktemp -d); cd $d; export PYTHONPATH=${1:-/repo}
/venv/bin/python -m mypy -n 2 --cache-dir $d/c -c 'x: int = "a"'; echo "parallel exit=$? (sequential: 1)"
rm -rf $d
