#!/bin/bash
# usage: bash recheck_update.sh <mypy-tree>
T=$(mktemp -d); cd $T
D="env PYTHONPATH=$1 /venv/bin/python -m mypy.dmypy --status-file $T/st.json"
echo 'x: int = 1' > a.py; echo 'y: int = 1' > b.py
$D start >/dev/null
$D check a.py; echo "rc=$?"
$D recheck --update b.py 2>&1 | tail -3; echo "rc=$?"
$D status 2>&1 | tail -2; echo "status rc=$?"
$D stop >/dev/null 2>&1
cd /; rm -rf $T
