#!/bin/bash
# usage: bash unflushed_fscache.sh <mypy-tree>
T=$(mktemp -d); cd $T
D="env PYTHONPATH=$1 /venv/bin/python -m mypy.dmypy --status-file $T/st.json"
echo 'x: int = 1' > a.py; mkdir pkg bad-dir; : > pkg/__init__.py; echo 'z: int = 1' > pkg/m.py; : > bad-dir/__init__.py; echo 'y = 1' > bad-dir/x.py
$D start -- --no-error-summary >/dev/null
$D check a.py pkg; echo "rc=$?"
$D check a.py pkg bad-dir/x.py; echo "rc=$?"
sleep 1.1
echo 'x: int = ""' > a.py; echo 'z: int = ""' > pkg/m.py
echo "--- first check after the edit (must report a.py:1 and pkg/m.py:1)"
$D check a.py pkg; echo "rc=$?"
echo "--- second check"
$D check a.py pkg; echo "rc=$?"
$D stop >/dev/null
cd /; rm -rf $T
