def f[T: ()](x: T) -> T: return x
reveal_type(f)
