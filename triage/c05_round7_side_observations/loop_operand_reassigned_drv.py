import m
print(m.f(6), m.g([1,2,3,4]), m.h((1,2,3)), m.s("abc"))
