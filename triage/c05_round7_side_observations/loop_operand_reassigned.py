def f(n: int) -> list[int]:
    out = []
    for i in range(n):
        n -= 1
        out.append(i)
    return out
def g(a: list[int]) -> list[int]:
    out = []
    for x in a:
        a = [1, 9]
        out.append(x)
    return out
def h(t: tuple[int, ...]) -> list[int]:
    out = []
    for x in t:
        t = (7,)
        out.append(x)
    return out
def s(a: str) -> list[str]:
    out = []
    for x in a:
        a = "zz"
        out.append(x)
    return out
