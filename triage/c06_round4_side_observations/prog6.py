from mypy_extensions import i64

def del_float(flag: bool) -> float:
    x = 1.5
    if flag:
        del x
    return x

def del_i64(flag: bool) -> i64:
    y: i64 = 5
    if flag:
        del y
    return y

def reassign(flag: bool) -> float:
    x = 1.5
    if flag:
        del x
        x = 2.5
    return x
