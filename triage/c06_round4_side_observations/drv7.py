import prog7
try:
    prog7.make_with_new()
    print("no exception")
except ValueError as e:
    print("ValueError", e)
except SystemError as e:
    print("SystemError", e)
