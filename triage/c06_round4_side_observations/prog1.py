class Base:
    def __init__(self) -> None:
        self.x = "a" + str(1)

class D(Base):
    def __init__(self, other: Base) -> None:
        Base.__init__(other)          # initialises *other*, not self

def getx(d: D) -> str:
    return d.x

class O:
    def __init__(self, e: "E | None") -> None:
        self.s = "none"
        if e is not None:
            self.s = e.y

class E:
    def __init__(self, o: O) -> None:
        O.__init__(o, self)           # O.__init__ reads self.y before it exists
        self.y = "x" + str(2)

def test2() -> str:
    try:
        e = E(O(None))
    except AttributeError:
        return "AttributeError"
    return "ok"

def test1() -> str:
    try:
        return getx(D(Base()))
    except AttributeError:
        return "AttributeError"
