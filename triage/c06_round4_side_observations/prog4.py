from typing import Any
class Obj: pass
def make() -> Any:
    return Obj()
def bad_cast() -> int:
    try:
        s: str = make()
        return len(s)
    except TypeError:
        return -1
