import prog1
print("test1", prog1.test1())
print("test2", prog1.test2())
