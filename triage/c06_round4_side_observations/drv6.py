import prog6
for f in (prog6.del_float, prog6.del_i64):
    print(f.__name__, False, f(False))
    try:
        print(f.__name__, True, f(True))
    except UnboundLocalError as e:
        print(f.__name__, True, "UnboundLocalError")
print(prog6.reassign(True), prog6.reassign(False))
