from typing import Any
class WithNew:
    def __new__(cls, *args: Any, **kwargs: Any) -> "WithNew":
        return object.__new__(cls)
    def __init__(self, *args: Any, **kwargs: Any) -> None:
        raise ValueError("boom")
def make_with_new() -> WithNew:
    return WithNew(1)
