import gc, prog4
def count():
    gc.collect()
    return sum(1 for o in gc.get_objects() if type(o).__name__ == "Obj")
b = count()
for _ in range(100):
    prog4.bad_cast()
a = count()
print("live Obj before", b, "after 100 failing casts", a)
raise SystemExit(0 if a == b else 1)
