#!/usr/bin/env python3
"""Triage helper (run by hand): start a dmypy daemon in a temp dir, misbehave as a client,
then check that `dmypy status` / `dmypy check` still work."""
import json, os, shutil, socket, struct, subprocess, sys, tempfile, time

PY = "/venv/bin/python"
d = tempfile.mkdtemp(prefix="c16_")
os.chdir(d)
open("m.py", "w").write("x: int = ''\n")
def dmypy(*a):
    return subprocess.run([PY, "-m", "mypy.dmypy", *a], capture_output=True, text=True, timeout=60)
try:
    r = dmypy("start", "--", "--no-error-summary")
    print("start", r.returncode, r.stdout, r.stderr)
    st = json.load(open(".dmypy.json"))
    name = st["connection_name"]
    def conn():
        s = socket.socket(socket.AF_UNIX); s.connect(name); return s
    faults = {
        "connect-close": lambda s: None,
        "partial-frame": lambda s: s.sendall(struct.pack("!L", 50) + b"{\"comm"),
        "garbage-json": lambda s: s.sendall(struct.pack("!L", 5) + b"hello"),
        "bad-utf8": lambda s: s.sendall(struct.pack("!L", 2) + b"\xff\xfe"),
        "not-a-dict": lambda s: s.sendall(struct.pack("!L", 2) + b"[]"),
        "unknown-command": lambda s: (s.sendall(struct.pack("!L", 18) + b'{"command": "zzz"}'), time.sleep(0.3)),
    }
    for nm, f in faults.items():
        s = conn(); f(s); s.close(); time.sleep(0.3)
        r = dmypy("status")
        ok = r.returncode == 0
        r2 = dmypy("check", "m.py")
        print(f"{nm}: status rc={r.returncode} check rc={r2.returncode} out={r2.stdout.strip()[:80]!r} {'' if ok else r.stdout + r.stderr}")
        if not os.path.exists(".dmypy.json"):
            print("  daemon gone (no status file)"); break
    print("stop", dmypy("stop").returncode, "status file remains:", os.path.exists(".dmypy.json"))
finally:
    subprocess.run([PY, "-m", "mypy.dmypy", "kill"], capture_output=True)
    os.chdir("/"); shutil.rmtree(d, ignore_errors=True)
