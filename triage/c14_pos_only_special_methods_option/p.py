class A:
    def __eq__(self, other: object) -> bool: return True
A().__eq__(other=1)
