from typing import Final
S: Final = "\ud800"
