type A[*Ts, Ts] = tuple[*Ts]
