import a
a.D(1)
a.D(y=1)
