import dataclasses

@dataclasses.dataclass(kw_only=True)
class D:
    x: int
