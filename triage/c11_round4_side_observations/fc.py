from typing import Final
X: Final[complex] = 1 + 2j
