#!/bin/bash
# usage: dm.sh <tree> <dir> <editscript>   -- runs daemon, applies edit, checks; then full run
tree=$1; dir=$2; edit=$3
cd $dir
export PYTHONPATH=$tree
/venv/bin/python -m mypy.dmypy --status-file ./st.json run -- --no-error-summary --hide-error-context --cache-dir=/dev/null $FLAGS . > /dev/null 2>&1
sleep 1.1; bash $edit
echo "-- daemon"; /venv/bin/python -m mypy.dmypy --status-file ./st.json check . ; echo "status=$?"
/venv/bin/python -m mypy.dmypy --status-file ./st.json stop > /dev/null 2>&1
echo "-- full"; /venv/bin/python -m mypy --no-error-summary --hide-error-context --cache-dir=/dev/null $FLAGS . ; echo "status=$?"
