def f() -> int: return 0
