from a import f
x: int = f()  # type: ignore
