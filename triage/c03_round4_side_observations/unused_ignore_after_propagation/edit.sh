printf 'def f() -> int: return 0\n' > a.py
