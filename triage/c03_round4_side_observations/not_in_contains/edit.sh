sed -i 's/x: int/x: str/' m.py
