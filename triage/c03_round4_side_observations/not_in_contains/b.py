from m import C
def f(c: C) -> None:
    if 1 not in c:
        pass
