class C:
    def __contains__(self, x: str) -> bool: return True
