from typing import AsyncIterator
class A:
    async def f(self) -> AsyncIterator[int]: ...
class B(A):
    def f(self) -> AsyncIterator[int]: ...  # type: ignore[override]
x: [int]  # type: ignore[valid-type]
