from mypy_extensions import i64, i32
def shl(x: i64) -> i64:
    return 1 << x
def shr(x: i64) -> i64:
    return 1099511627776 >> x
def shl3(x: i64) -> i64:
    y: i64 = 1
    return y << x
def shr2(x: i64) -> i64:
    return 1024 >> x
def shl32(x: i32) -> i32:
    return 1 << x
