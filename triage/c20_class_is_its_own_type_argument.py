from typing import Generic, Protocol
class A(Generic[A]): pass
