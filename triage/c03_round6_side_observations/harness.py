"""Exploration harness: python harness.py <tree> <scenario.py> [extra mypy flags...]

scenario.py defines STEPS: list of dict path->content (None = delete), and optional
FILES (list of command-line targets, default ["."]) and FLAGS.
Runs dmypy (check via `run`) after every step and compares with a fresh full mypy run.
"""
import os
import subprocess
import sys
import tempfile
import runpy
import shutil

PY = "/venv/bin/python"


def main() -> int:
    tree = os.path.abspath(sys.argv[1])
    scen = runpy.run_path(sys.argv[2])
    steps = scen["STEPS"]
    targets = scen.get("FILES", ["."])
    flags = scen.get("FLAGS", []) + sys.argv[3:]
    work = tempfile.mkdtemp(prefix="c03e-")
    proj = os.path.join(work, "proj")
    os.mkdir(proj)
    env = dict(os.environ, PYTHONPATH=tree, MYPY_CACHE_DIR=os.path.join(work, "cache"))
    status = os.path.join(work, "dmypy.json")
    base_flags = ["--no-error-summary", "--show-traceback", "--no-color-output"] + flags
    bad = 0
    try:
        for i, step in enumerate(steps, 1):
            for path, content in step.items():
                p = os.path.join(proj, path)
                if content is None:
                    os.remove(p)
                else:
                    os.makedirs(os.path.dirname(p), exist_ok=True)
                    with open(p, "w") as f:
                        f.write(content)
                    # make sure mtime/size changes are seen
                    st = os.stat(p)
                    os.utime(p, (st.st_atime + i, st.st_mtime + i))
            d = subprocess.run(
                [PY, "-m", "mypy.dmypy", "--status-file", status, "run", "--"]
                + base_flags
                + targets,
                cwd=proj,
                env=env,
                capture_output=True,
                text=True,
            )
            f = subprocess.run(
                [PY, "-m", "mypy", "--no-incremental", "--cache-dir=/dev/null"]
                + base_flags
                + targets,
                cwd=proj,
                env=env,
                capture_output=True,
                text=True,
            )
            dout = [l for l in d.stdout.splitlines() if l and not l.startswith("Daemon")]
            fout = f.stdout.splitlines()
            ok = sorted(dout) == sorted(fout) and d.returncode == f.returncode
            print(f"--- step {i}: {'ok' if ok else 'MISMATCH'} (daemon rc={d.returncode}, full rc={f.returncode})")
            if not ok or os.environ.get("VERBOSE"):
                print("daemon:")
                for l in dout:
                    print("   ", l)
                if d.stderr.strip():
                    print("   [stderr]", d.stderr.strip()[-2000:])
                print("full:")
                for l in fout:
                    print("   ", l)
                if f.stderr.strip():
                    print("   [stderr]", f.stderr.strip()[-2000:])
            if not ok:
                bad += 1
    finally:
        subprocess.run(
            [PY, "-m", "mypy.dmypy", "--status-file", status, "stop"],
            cwd=proj,
            env=env,
            capture_output=True,
        )
        shutil.rmtree(work, ignore_errors=True)
    return 1 if bad else 0


if __name__ == "__main__":
    sys.exit(main())
