# @final / @runtime_checkable on a class are not in the TypeInfo snapshot
STEPS = [
 {"main.py": "from a import C, P\nclass D(C): ...\ndef f(x: object) -> None:\n    isinstance(x, P)\n", "a.py": "from typing import final, Protocol, runtime_checkable\nclass C: ...\n@runtime_checkable\nclass P(Protocol):\n    def m(self) -> int: ...\n"},
 {"a.py": "from typing import final, Protocol, runtime_checkable\n@final\nclass C: ...\n@runtime_checkable\nclass P(Protocol):\n    def m(self) -> int: ...\n"},
 {"a.py": "from typing import final, Protocol, runtime_checkable\nclass C: ...\nclass P(Protocol):\n    def m(self) -> int: ...\n"},
]
