from typing import Literal
x: Literal["a"] = ": note:"
