reveal_type(": error:")
