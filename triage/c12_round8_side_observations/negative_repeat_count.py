from typing import Final
X: Final = 'ab' * -10**400
Y: Final = -10**400 * 'ab'
