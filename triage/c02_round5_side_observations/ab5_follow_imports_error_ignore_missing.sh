#!/bin/bash
# already broken on the unmodified tree: follow_imports=error + ignore_missing_imports, module added later
set -u
TREE=${1:-/tmp/seed/C02e}
W=$(mktemp -d /tmp/c02e-ab5.XXXXXX)
cd "$W"
cat > main.py <<'EOF'
import mod
EOF
run() { (cd "$TREE" && /venv/bin/python -m mypy --no-error-summary --follow-imports=error --ignore-missing-imports --cache-dir="$1" "$W/main.py"); echo "exit $?"; }
export MYPYPATH="$W"
run "$W/warm"
echo "x = 1" > mod.py
echo '--- warm (mod.py added)'
run "$W/warm"
echo '--- cold'
run "$W/cold"
rm mod.py
echo '--- warm (mod.py removed again)'
run "$W/cold"
echo '--- cold'
run "$W/cold2"
