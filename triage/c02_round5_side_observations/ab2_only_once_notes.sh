#!/bin/bash
# already broken on the unmodified tree: only_once notes vs replayed errors
set -u
TREE=${1:-/tmp/seed/C02e}
W=$(mktemp -d /tmp/c02e-ab2.XXXXXX)
cd "$W"
cat > main.py <<'EOF'
import a
import b
EOF
cat > a.py <<'EOF'
import missing_a
EOF
cat > b.py <<'EOF'
import missing_b
EOF
run() { (cd "$TREE" && /venv/bin/python -m mypy --no-error-summary --cache-dir="$1" "$W/main.py"); echo "exit $?"; }
export MYPYPATH="$W"
run "$W/warm"
echo "x = 1" >> b.py
echo '--- warm (b edited)'
run "$W/warm"
echo '--- cold'
run "$W/cold"
echo "x = 1" >> a.py
echo '--- warm (a edited)'
run "$W/warm"
echo '--- cold'
run "$W/cold2"
