#!/bin/bash
# already broken on the unmodified tree: import context replayed from cache
set -u
TREE=${1:-/tmp/seed/C02e}
W=$(mktemp -d /tmp/c02e-ab4.XXXXXX)
cd "$W"
cat > main.py <<'EOF'
import a
EOF
cat > a.py <<'EOF'
x: int = ''
EOF
run() { (cd "$TREE" && /venv/bin/python -m mypy --no-error-summary --show-error-context --cache-dir="$1" "$W/main.py"); echo "exit $?"; }
export MYPYPATH="$W"
run "$W/warm"
cat > main.py <<'EOF'
# a comment

import a
EOF
echo '--- warm (main edited)'
run "$W/warm"
echo '--- cold'
run "$W/cold"
