#!/bin/bash
# already broken on the unmodified tree: indirect dependency on an ancestor package is dropped
set -u
TREE=${1:-/tmp/seed/C02e}
W=$(mktemp -d /tmp/c02e-ab3.XXXXXX)
cd "$W"
mkdir pkg
cat > main.py <<'EOF'
import pkg.mod
EOF
cat > pkg/__init__.py <<'EOF'
class X:
    attr: int = 0
EOF
cat > other.py <<'EOF'
from pkg import X
def get() -> X: ...
EOF
cat > pkg/mod.py <<'EOF'
import other
reveal_type(other.get().attr)
EOF
run() { (cd "$TREE" && /venv/bin/python -m mypy --no-error-summary --cache-dir="$1" "$W/main.py"); echo "exit $?"; }
export MYPYPATH="$W"
run "$W/warm"
cat > pkg/__init__.py <<'EOF'
class X:
    attr: str = ''
EOF
echo '--- warm (pkg/__init__ edited)'
run "$W/warm"
echo '--- cold'
run "$W/cold"
