#!/bin/bash
# already broken on the unmodified tree: plugin snapshot is not updated when a run ends with a blocking error
set -u
TREE=${1:-/tmp/seed/C02e}
W=$(mktemp -d /tmp/c02e-ab6.XXXXXX)
cd "$W"
cat > mypy.ini <<'EOF'
[mypy]
plugins = plug.py
EOF
mkplug() {
cat > plug.py <<EOF
from mypy.plugin import Plugin
class P(Plugin):
    def get_function_hook(self, fullname):
        if fullname == "lib.magic":
            return lambda ctx: ctx.api.named_generic_type("builtins.$1", [])
        return None
def plugin(version):
    return P
EOF
}
mkplug int
cat > lib.py <<'EOF'
def magic() -> object: ...
EOF
cat > a.py <<'EOF'
from lib import magic
reveal_type(magic())
EOF
cat > main.py <<'EOF'
import a
EOF
run() { (cd "$W" && PYTHONPATH="$TREE" /venv/bin/python -m mypy --no-error-summary --config-file mypy.ini --cache-dir="$1" main.py); echo "exit $?"; }
echo '--- run 1 (plugin v1)'
run "$W/warm"
mkplug str
cat > main.py <<'EOF'
import a
break
EOF
echo '--- run 2 (plugin v2, blocking error in main)'
run "$W/warm"
mkplug int
cat > main.py <<'EOF'
import a
EOF
echo '--- run 3 warm (plugin v1 again, blocker removed)'
run "$W/warm"
echo '--- cold'
run "$W/cold"
