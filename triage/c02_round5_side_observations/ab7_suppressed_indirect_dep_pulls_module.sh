#!/bin/bash
# already broken on the unmodified tree: a suppressed *indirect* dependency pulls a module nobody imports into the build
set -u
TREE=${1:-/tmp/seed/C02e}
W=$(mktemp -d /tmp/c02e-ab7.XXXXXX)
cd "$W"
cat > main.py <<'EOF'
import b
y = b.x
EOF
cat > b.py <<'EOF'
import c
x = c.X()
EOF
cat > c.py <<'EOF'
class X: ...
EOF
run() { (cd "$W" && PYTHONPATH="$TREE" /venv/bin/python -m mypy --no-error-summary --cache-dir="$1" main.py); echo "exit $?"; }
echo '--- run 1'
run "$W/warm"
cat > b.py <<'EOF'
x = 1
EOF
rm c.py
echo '--- run 2 warm (b no longer imports c, c.py deleted)'
run "$W/warm"
echo '--- run 2 cold'
run "$W/cold2"
cat > c.py <<'EOF'
oops: int = 'not imported by anybody'
EOF
echo '--- run 3 warm (unrelated c.py created, nobody imports it)'
run "$W/warm"
echo '--- run 3 cold'
run "$W/cold3"
