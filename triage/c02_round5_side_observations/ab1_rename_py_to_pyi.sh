#!/bin/bash
# already broken on the unmodified tree: rename m.py -> m.pyi, warm vs cold
set -u
TREE=${1:-/tmp/seed/C02e}
W=$(mktemp -d /tmp/c02e-ab1.XXXXXX)
cd "$W"
cat > main.py <<'EOF'
import m
reveal_type(m.f())
EOF
cat > m.py <<'EOF'
def f() -> int: ...
x: int = ...
EOF
run() { (cd "$TREE" && /venv/bin/python -m mypy --no-error-summary --cache-dir="$1" "$W/main.py"); echo "exit $?"; }
export MYPYPATH="$W"
run "$W/warm"
mv m.py m.pyi
echo '--- warm'
run "$W/warm"
echo '--- cold'
run "$W/cold"
