class P:
    __match_args__ = ("x", "y")

    def __init__(self, x: int, y: int) -> None:
        self.x = x
        self.y = y


class Q(P):
    pass


def match_inherited(o: object) -> int:
    match o:
        case Q(a, b):
            return a + b
    return -1
