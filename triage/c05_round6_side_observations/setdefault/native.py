from typing import Dict, List


def sd(d: Dict[str, List[int]], k: str) -> List[int]:
    return d.setdefault(k, [])
