from collections import defaultdict
import native
d = defaultdict(lambda: [99])
print(native.sd(d, "k"), dict(d))   # interpreted: [] {'k': []}
