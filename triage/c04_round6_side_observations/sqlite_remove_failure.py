"""SqliteMetadataStore.remove(): a failing DELETE must surface as OSError (what build.py handles).

Run: cd <empty dir>; PYTHONPATH=/repo /venv/bin/python sqlite_remove_failure.py
Before /repo fix 911fa99: sqlite3.OperationalError escapes invalidate_cache_meta_ex (INTERNAL ERROR in a
real run: `FAIL_REMOVE=a.meta_ex mypy --sqlite-cache b.py` with the C04 round-6 sub-agent's fault injector).
After: prints the log line and False.
"""
import sqlite3

from mypy import build
from mypy.metastore import SqliteMetadataStore

st = SqliteMetadataStore("cache")
st.write("a.meta_ex", b"x")
st.commit()


class Locked:
    def __init__(self, db):
        self.db = db

    def execute(self, q, *a):
        if q.startswith("DELETE"):
            raise sqlite3.OperationalError("database is locked")
        return self.db.execute(q, *a)

    def commit(self):
        self.db.commit()

    def close(self):
        self.db.close()


st.dbs = [Locked(d) for d in st.dbs]


class M:
    metastore = st

    def log(self, *a):
        print("log:", *a)


print(build.invalidate_cache_meta_ex("a.meta", M()))
