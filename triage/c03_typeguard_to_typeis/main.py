from lib import is_str
def f(x: int | str) -> None:
    if is_str(x):
        pass
    else:
        reveal_type(x)
