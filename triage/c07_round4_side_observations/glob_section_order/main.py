import pkg.sub.mod
