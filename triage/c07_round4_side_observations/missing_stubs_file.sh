#!/bin/bash
# usage: run4.sh <tree> <n>
tree=$1; n=$2; w=$(mktemp -d); cd $w
printf 'def f() -> int:\n    return 1\n' > dep.py
printf 'import toml\nimport dep\ny = dep.f()\n' > m.py
printf 'import m\n' > main.py
extra=""; [ "$n" = "0" ] && extra="--native-parser"
PYTHONPATH=$tree /venv/bin/python -m mypy -n $n $extra --cache-dir c main.py > /dev/null 2>&1
echo "after cold -n $n: missing_stubs = $(cat c/missing_stubs 2>/dev/null | tr '\n' ' ')"
sleep 1.1; printf "def f() -> str:\n    return 'a'\n" > dep.py
PYTHONPATH=$tree /venv/bin/python -m mypy -n $n $extra --cache-dir c main.py > /dev/null 2>&1
echo "after warm -n $n: missing_stubs = $(cat c/missing_stubs 2>/dev/null | tr '\n' ' ') $( [ -e c/missing_stubs ] || echo '(file gone)')"
rm -rf $w
