#!/bin/bash
# 'Import of "x" ignored [misc]' is not removed by a per-module disable_error_code = misc (before /repo fix).
REPO=${1:-/repo}; T=$(mktemp -d); cd $T
printf 'import x\n' > main.py; printf 'v = 1\n' > x.py
printf '[mypy]\nfollow_imports = error\n[mypy-main]\ndisable_error_code = misc\n' > mypy.ini
PYTHONPATH=$REPO /venv/bin/python -m mypy --cache-dir /dev/null main.py; echo "exit $?"   # before: error + exit 1; after: Success
rm -rf $T
