import sys
from mypy import api
if sys.argv[1] == "pre":
    print("build 1:", api.run(["--no-incremental", "--config-file", "with_plugin.ini", "a.py"]))
print("build 2:", api.run(["--no-incremental", "--config-file", "", "--disable-error-code", "my-custom", "b.py"]))
