from mypy.plugin import Plugin
from mypy.errorcodes import ErrorCode
CUSTOM = ErrorCode("my-custom", "A custom code", "General")
class P(Plugin):
    pass
def plugin(version):
    return P
