x: int = 1
