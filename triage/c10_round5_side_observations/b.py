y: int = "s"  # type: ignore[my-custom]
