def f(x: object) -> None:
    match x:
        case [*a, *b]:
            pass
