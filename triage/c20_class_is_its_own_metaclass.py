class A(metaclass=A): pass
