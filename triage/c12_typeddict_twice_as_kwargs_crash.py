from typing import TypedDict
class TD(TypedDict):
    a: int
def f(**a: int) -> None: ...
def g(td: TD) -> None:
    f(**td, **td)
