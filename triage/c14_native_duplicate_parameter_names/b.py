def f(__x: int) -> None: ...
f(__x=1)
reveal_type(f)
def g(a, a): pass
h = lambda b, b: b
