#!/usr/bin/env python3
"""Triage helper (run by hand): kill a run between write_cache_meta and write_cache_meta_ex of a
module and compare the next warm run with a cold run.  Usage: ... [--sqlite]"""
import os, shutil, subprocess, sys, tempfile, textwrap

PY = "/venv/bin/python"
store = [] if "--sqlite" in sys.argv else ["--no-sqlite-cache"]
d = tempfile.mkdtemp(prefix="c04_")
os.chdir(d)
KILLER = textwrap.dedent('''
    import os, sys
    import mypy.build as b
    orig = b.write_cache_meta_ex
    def killer(meta_file, meta_ex, manager):
        if "/m." in meta_file or meta_file.startswith("m."):
            os._exit(3)
        return orig(meta_file, meta_ex, manager)
    b.write_cache_meta_ex = killer
    from mypy.main import main
    main(args=sys.argv[1:])
''')
open("killer.py", "w").write(KILLER)
def run(*extra, killer=False):
    cmd = [PY, "killer.py"] if killer else [PY, "-m", "mypy"]
    p = subprocess.run(cmd + ["--no-error-summary", "--cache-dir", ".c", *store, "m.py", *extra], capture_output=True, text=True)
    return p.returncode, (p.stdout + p.stderr).strip()
try:
    open("m.py", "w").write("x: int = ''\n")
    print("run1 (caches an error):", run())
    open("m.py", "w").write("x: int = 1\n\n")
    print("run2 (killed between meta and meta_ex):", run(killer=True))
    warm = run()
    shutil.rmtree(".c")
    cold = run()
    print("run3 warm:", warm)
    print("cold     :", cold)
    print("RESULT:", "same" if warm == cold else "DIFFERENT (stale cache trusted)")
finally:
    os.chdir("/"); shutil.rmtree(d, ignore_errors=True)
