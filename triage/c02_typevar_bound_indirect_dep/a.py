from b import f
from e import E
f(E())
