from typing import TypeVar
from c import D
T = TypeVar("T", bound=D)
def f(x: T) -> T:
    return x
