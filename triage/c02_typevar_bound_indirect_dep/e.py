class E:
    def m(self) -> int:
        return 1
