#!/bin/bash
# An importer cached while the namespace package was invisible keeps a bogus attr-defined error (before the /repo fix).
REPO=${1:-/repo}; T=$(mktemp -d); mkdir -p $T/ns; cd $T
printf 'x: int = 1\n' > ns/mod.py; printf 'from ns import mod\nreveal_type(mod.x)\n' > a.py
PYTHONPATH=$REPO /venv/bin/python -m mypy --no-namespace-packages --cache-dir=c1 a.py
echo "-- warm, default options"; PYTHONPATH=$REPO /venv/bin/python -m mypy --cache-dir=c1 a.py   # before: Module "ns" has no attribute "mod"
echo "-- cold, default options"; PYTHONPATH=$REPO /venv/bin/python -m mypy --cache-dir=c2 a.py   # Revealed type is "int"
rm -rf $T
