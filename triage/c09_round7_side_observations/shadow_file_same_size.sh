#!/bin/bash
# Adding --shadow-file on an existing cache replays the original file's result when the shadow file has the same size.
REPO=${1:-/repo}; T=$(mktemp -d); cd $T
printf 'x: int = 1\n' > a.py; printf 'x: str = 1\n' > s2.py
PYTHONPATH=$REPO /venv/bin/python -m mypy --cache-dir C a.py
sleep 1; touch s2.py
echo "-- warm with --shadow-file:"; PYTHONPATH=$REPO /venv/bin/python -m mypy --cache-dir C --shadow-file a.py s2.py a.py; echo "exit $?"   # before 1d7d386: Success, 0
echo "-- cold with --shadow-file:"; PYTHONPATH=$REPO /venv/bin/python -m mypy --cache-dir F --shadow-file a.py s2.py a.py; echo "exit $?"   # error, 1
rm -rf $T
