#!/bin/bash
# warm run: [import-not-found]; cold run: [import] + "You may be running mypy in a subpackage" (before the /repo fix)
REPO=${1:-/repo}; T=$(mktemp -d); mkdir -p $T/top/pkg; cd $T/top/pkg
printf '' > __init__.py; printf 'x = 1\n' > b.py; printf 'import pkg.b\n' > a.py
printf '[mypy]\n[mypy-pkg.*]\nignore_missing_imports = True\n' > r1.ini
printf '[mypy]\n[mypy-pkg.*]\nignore_missing_imports = False\n' > r2.ini
PYTHONPATH=$REPO /venv/bin/python -m mypy --config-file r1.ini --cache-dir=c1 -m a
echo "-- warm"; PYTHONPATH=$REPO /venv/bin/python -m mypy --config-file r2.ini --cache-dir=c1 -m a
echo "-- cold"; PYTHONPATH=$REPO /venv/bin/python -m mypy --config-file r2.ini --cache-dir=c2 -m a
rm -rf $T
