class A:
    @property
    def x(self) -> int: return 0
    def x(self) -> int: return 1
    @x.setter
    def x(self, v: int) -> None: ...
