from typing import Union, List
Rec = Union[List["Rec"], int]
RecX = Union[List["RecX"], str]
def f(a: RecX, la: List[RecX]) -> None:
    lr: List[Rec] = la
