from typing import Union, List
Rec = Union[List["Rec"], int]
RecX = Union[List["RecX"], str]
def f(a: Rec, la: List[RecX]) -> None:
    r: RecX = a
    lr: List[Rec] = la
