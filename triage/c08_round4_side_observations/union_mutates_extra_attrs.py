class A: ...
def f(x: A, y: A, c: bool) -> None:
    if hasattr(x, "foo"):
        reveal_type(x.foo)
        z = x if c else y
        reveal_type(x.foo)
def g(x: A, y: A, c: bool) -> None:
    if hasattr(x, "foo"):
        z = y if c else x
        reveal_type(x.foo)
