import a
y: int = ""  # type: ignore
