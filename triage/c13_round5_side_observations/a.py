import b
x: int = ""  # type: ignore
