import asyncio


async def nop() -> int:
    await asyncio.sleep(0)
    return 1


def take(b: bytes, n: int) -> int:
    return len(b) + n


async def f() -> int:
    return take(b"some bytes literal that is not immortal", await nop())


def lit() -> bytes:
    return b"some bytes literal that is not immortal"
