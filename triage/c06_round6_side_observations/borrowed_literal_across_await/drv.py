import asyncio, sys, m
x = m.lit()
base = sys.getrefcount(x)
for i in range(5):
    asyncio.run(m.f())
    print(i, sys.getrefcount(x) - base)
