class Payload:
    def __init__(self, n: int) -> None:
        self.n = n

class C:
    def __init__(self, p: object, n: int) -> None:
        if n < 0:
            raise ValueError("neg")
        self.p = Payload(n)

class D(C):
    def __del__(self) -> None:
        print("del", self.p.n)

def run() -> None:
    try:
        D(None, -1)
    except ValueError:
        print("caught")
