class Tracked:
    def __init__(self, n: int) -> None:
        self.n = n


def pair(n: int) -> tuple[Tracked, Tracked]:
    return Tracked(n), Tracked(n + 1)


def unpack_into(lst: list[Tracked], n: int) -> None:
    lst[5], lst[0] = pair(n)


def run(n: int) -> int:
    bad = 0
    lst = [Tracked(0)]
    for i in range(n):
        try:
            unpack_into(lst, i)
        except IndexError:
            bad += 1
    return bad
