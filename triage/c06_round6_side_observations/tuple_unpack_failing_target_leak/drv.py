import gc, m
def count():
    gc.collect()
    return sum(1 for o in gc.get_objects() if type(o).__name__ == 'Tracked')
m.run(10)
a = count()
m.run(1000)
b = count()
print(a, b)
