#!/bin/bash
# Warm sequential run reports a missing import that the importing module's inline configuration disables.
# Usage: bash inline_config_missing_import_warm.sh [/repo]
REPO=${1:-/repo}; T=$(mktemp -d); cd $T
printf 'import b\n' > main.py
printf '# mypy: disable-error-code="import-not-found"\nimport c\n' > b.py
printf 'v = 1\n' > c.py
PYTHONPATH=$REPO /venv/bin/python -m mypy --cache-dir S main.py        # Success
rm c.py
echo "-- warm:"; PYTHONPATH=$REPO /venv/bin/python -m mypy --cache-dir S main.py; echo "exit $?"   # b.py:2: error: Cannot find ... exit 1
echo "-- cold:"; PYTHONPATH=$REPO /venv/bin/python -m mypy --cache-dir F main.py; echo "exit $?"   # Success, exit 0
rm -rf $T
