from typing import Tuple
from typing_extensions import TypeVarTuple, Unpack
Ts = TypeVarTuple("Ts")
def many(*a: Unpack[Ts]) -> Tuple[Unpack[Ts]]: return a
def f(rv: Tuple[int, Unpack[Ts], int, int]) -> None:
    x, y, *xs, z = rv
    reveal_type(y)
    c = (y, y)
    many(*c)
