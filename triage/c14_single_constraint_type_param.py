type A[T: (int,)] = list[T]
class C[T: (str,)]: pass
