from typing import NamedTuple, TypedDict, NewType
class N(NamedTuple):
    x: N2
class N2(NamedTuple):
    y: "list[N]"
    z: N3
N3 = NewType("N3", N3)
