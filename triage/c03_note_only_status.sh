# dmypy: first check of a reveal_type-only file exits 0; after an edit the same request exited 1 (mypy: 0)
set -e; d=$(mktemp -d); cd $d; export PYTHONPATH=${1:-/repo}
printf 'x = 1\nreveal_type(x)\n' > a.py
/venv/bin/python -m mypy.dmypy start >/dev/null
/venv/bin/python -m mypy.dmypy check a.py >/dev/null; echo "first=$?"
sleep 1.1; printf 'x = 13\nreveal_type(x)\n' > a.py
set +e; /venv/bin/python -m mypy.dmypy check a.py >/dev/null; echo "after edit=$? (mypy: 0)"
/venv/bin/python -m mypy.dmypy stop >/dev/null; rm -rf $d
