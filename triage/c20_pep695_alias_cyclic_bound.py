type L[T: B3] = L[T]
type B3 = None | L[B3]
