set -e
rm -rf /tmp/c04b/proj /tmp/c04b/cache /tmp/c04b/cache2; mkdir /tmp/c04b/proj
TREE=${1:-/repo}
M="/venv/bin/python -m mypy --no-sqlite-cache --show-traceback"
cd /tmp/c04b/proj
cat > a.py <<'P'
x: int = 0
P
cat > m.py <<'P'
import a
P
export PYTHONPATH=$TREE
$M --cache-dir ../cache m.py
# edited version checked elsewhere to obtain the data record a killed run would have published
cp -rp ../cache ../cache2
sleep 1.1
cat > a.py <<'P'
x: str = ""
P
$M --cache-dir ../cache2 m.py
f=$(cd ../cache2 && find . -name "a.data.*")
sleep 1.1
cp ../cache2/$f ../cache/$f      # state after: data replaced, killed before meta write
# user reverts the edit
cat > a.py <<'P'
x: int = 0
P
$M --cache-dir ../cache m.py -v 2>&1 | grep -i "abandoned\|unchanged\|Interface for a" || true
cat > m.py <<'P'
import a
reveal_type(a.x)
P
echo "--- warm"; $M --cache-dir ../cache m.py || true
echo "--- cold"; $M --cache-dir /dev/null --no-incremental m.py || true
