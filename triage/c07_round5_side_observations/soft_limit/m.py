import z, big
