import dataclasses
import enum


@dataclasses.dataclass
class D:
    a: int = 1

    class Inner: ...

    b: int = 2


class M:
    class Inner: ...

    def meth(self) -> int:
        return 1

    def setup(self) -> None:
        self.meth = 1


class E(enum.Enum):
    A = 1

    class Inner: ...

    B = 2
