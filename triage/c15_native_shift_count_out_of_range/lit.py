from mypy_extensions import u8, i32
def g() -> u8:
    return u8(261)
def h() -> i32:
    return i32(2**31)
