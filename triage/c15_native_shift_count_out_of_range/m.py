from mypy_extensions import i64, u8
def shr(x: i64, y: i64) -> i64:
    return x >> y
def shl(x: i64, y: i64) -> i64:
    return x << y
def shr8(x: u8, y: u8) -> u8:
    return x >> y
