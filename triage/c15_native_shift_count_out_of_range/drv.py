import m
print("compiled" if m.__file__.endswith(".so") else "interpreted")
for f, a, b in ((m.shr, 5, 64), (m.shr, 5, 65), (m.shr8, 200, 64), (m.shr, 5, -1)):
    try:
        print(f.__name__, a, b, "->", f(a, b))
    except Exception as e:
        print(f.__name__, a, b, "->", type(e).__name__)
