import lit
for f in (lit.g, lit.h):
    try: print(f.__name__, f())
    except Exception as e: print(f.__name__, type(e).__name__)
