from typing import Final
X: Final = +True
reveal_type(X)
Y: int = X
