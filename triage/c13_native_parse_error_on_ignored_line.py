from typing import overload
import sys
class A:
    if sys.argv:  # type: ignore
        @overload
        def f(self, x: int) -> int: ...
    @overload
    def f(self, x: str) -> str: ...
    def f(self, x): return x
