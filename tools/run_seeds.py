#!/usr/bin/env python3
"""Run the registered checks against every kept seeded change (seeded/<id>/patch.diff), each on a
scratch copy of /repo's current tree (never on /repo itself), and record which rules report it.
Usage: /venv/bin/python tools/run_seeds.py [seed-id-substring ...]   -> seeded/RESULTS.json"""
import json, os, re, shutil, subprocess, sys, tempfile
from concurrent.futures import ThreadPoolExecutor

VERIF = os.path.dirname(os.path.dirname(os.path.abspath(__file__)))
sys.path.insert(0, VERIF)
from sa.index import REPO  # noqa: E402
from sa.selftest import make_tree, seed_patch  # noqa: E402


def patched_files(patch_path: str) -> dict[str, str]:
    """path -> new content, obtained by applying the patch to copies of the touched files."""
    txt = open(patch_path).read()
    paths = sorted(set(re.findall(r"^\+\+\+ b/(\S+)", txt, re.M)))
    tmp = tempfile.mkdtemp(prefix="seedpatch_")
    try:
        for p in paths:
            os.makedirs(os.path.dirname(os.path.join(tmp, p)), exist_ok=True)
            if os.path.exists(os.path.join(REPO, p)):
                shutil.copy(os.path.join(REPO, p), os.path.join(tmp, p))
        r = subprocess.run(["patch", "-p1", "-s", "-i", patch_path], cwd=tmp, capture_output=True, text=True)
        if r.returncode != 0:
            raise RuntimeError(f"patch does not apply to the current tree: {r.stdout} {r.stderr}")
        return {p: open(os.path.join(tmp, p)).read() for p in paths}
    finally:
        shutil.rmtree(tmp, ignore_errors=True)


def run_seed(sid: str) -> dict:
    sd = os.path.join(VERIF, "seeded", sid)
    meta = json.load(open(os.path.join(sd, "meta.json")))
    checks = [c["property_id"] for c in json.load(open(os.path.join(VERIF, "MANIFEST.json")))["checks"]]
    res = {"seed": sid, "property": meta["property"], "fired": {}, "errors": {}}
    try:
        edits = patched_files(seed_patch(sd))
    except RuntimeError as e:
        res["errors"]["patch"] = str(e)
        return res
    tmp = tempfile.mkdtemp(prefix="seedrun_")
    try:
        make_tree(os.path.join(tmp, "repo"), edits)
        env = dict(os.environ, VERIF_REPO=os.path.join(tmp, "repo"), VERIF_EVIDENCE_DIR=os.path.join(tmp, "ev"))
        for pid in checks:
            p = subprocess.run([sys.executable, "-m", "sa.check", pid], cwd=VERIF, env=env, capture_output=True, text=True, timeout=900)
            hits = sorted({l.split()[0] for l in p.stdout.splitlines() if l.startswith("  R")})
            if p.returncode == 1:
                res["fired"][pid] = hits
            elif p.returncode == 2:
                res["errors"][pid] = [l for l in p.stdout.splitlines() if "ANALYSIS-ERROR" in l][:1]
        res["caught"] = meta["property"] in res["fired"]
        res["caught_by_any"] = bool(res["fired"])
    finally:
        shutil.rmtree(tmp, ignore_errors=True)
    return res


def main():
    sel = sys.argv[1:]
    ids = sorted(d for d in os.listdir(os.path.join(VERIF, "seeded")) if os.path.exists(os.path.join(VERIF, "seeded", d, "meta.json")))
    if sel:
        ids = [i for i in ids if any(s in i for s in sel)]
    with ThreadPoolExecutor(max_workers=int(os.environ.get("SEED_WORKERS", "4"))) as ex:
        results = list(ex.map(run_seed, ids))
    for r in results:
        print(f"{'CAUGHT' if r.get('caught') else ('caught-by-other' if r.get('caught_by_any') else 'MISSED'):16} {r['seed']:40} fired={r['fired']} errors={r['errors']}")
    out = os.path.join(VERIF, "seeded", "RESULTS.json")
    old = {}
    if os.path.exists(out) and sel:
        old = {r["seed"]: r for r in json.load(open(out))["results"]}
    for r in results:
        old[r["seed"]] = r
    json.dump({"results": [old[k] for k in sorted(old)]}, open(out, "w"), indent=1)


if __name__ == "__main__":
    main()
