#!/usr/bin/env python3
"""Show the violation lines the check of a seed's property prints on the seeded tree.
Usage: /venv/bin/python tools/seed_lines.py <seed-dir-name> [property]"""
import json, os, shutil, subprocess, sys, tempfile
VERIF = os.path.dirname(os.path.dirname(os.path.abspath(__file__)))
sys.path.insert(0, VERIF)
from sa.selftest import make_tree, seed_edits, seed_patch  # noqa: E402
sid = sys.argv[1]
sd = os.path.join(VERIF, "seeded", sid)
pid = sys.argv[2] if len(sys.argv) > 2 else json.load(open(os.path.join(sd, "meta.json")))["property"]
tmp = tempfile.mkdtemp(prefix="seedlines_")
try:
    make_tree(os.path.join(tmp, "repo"), seed_edits(seed_patch(sd)))
    env = dict(os.environ, VERIF_REPO=os.path.join(tmp, "repo"), VERIF_EVIDENCE_DIR=os.path.join(tmp, "ev"))
    p = subprocess.run([sys.executable, "-m", "sa.check", pid], cwd=VERIF, env=env, capture_output=True, text=True)
    for l in p.stdout.splitlines():
        if l.startswith("  R") or "ANALYSIS-ERROR" in l:
            print(l[:400])
    print("exit", p.returncode)
finally:
    shutil.rmtree(tmp, ignore_errors=True)
