#!/usr/bin/env python3
"""Confirm a seeded change in a scratch worktree of /repo (outside /repo and /verif):
  1. the demonstration passes on the unchanged tree,
  2. the patch applies and the tree still byte-compiles,
  3. the demonstration fails with the patch,
  4. (optional, --full) the pinned test suite still passes (every BASELINE stable_pass test),
and record the outcome in <seed dir>/confirm.json.  The worktree is removed afterwards.
Usage: /venv/bin/python tools/confirm_seed.py seeded/<id> [--full] [--tests "<pytest args>"]"""
import json, os, shutil, subprocess, sys, tempfile, time, xml.etree.ElementTree as ET

PY = "/venv/bin/python"


def run(cmd, cwd=None, timeout=3600):
    p = subprocess.run(cmd, cwd=cwd, capture_output=True, text=True, timeout=timeout, shell=isinstance(cmd, str))
    return p.returncode, (p.stdout + p.stderr)[-3000:]


def main():
    sd = os.path.abspath(sys.argv[1])
    full = "--full" in sys.argv
    tests = sys.argv[sys.argv.index("--tests") + 1] if "--tests" in sys.argv else None
    demo = next((os.path.join(sd, n) for n in ("demo.py", "demo.sh") if os.path.exists(os.path.join(sd, n))), None)
    res = {"seed": os.path.basename(sd), "when": time.strftime("%Y-%m-%d %H:%M:%S")}
    wt = tempfile.mkdtemp(prefix="seedconfirm_", dir="/tmp")
    os.rmdir(wt)
    try:
        rc, out = run(["git", "-C", "/repo", "worktree", "add", "--detach", "-q", wt, "HEAD"])
        assert rc == 0, out
        res["base_commit"] = subprocess.check_output(["git", "-C", "/repo", "log", "--format=%h", "-1"]).decode().strip()
        democmd = [PY, demo, wt] if demo.endswith(".py") else ["bash", demo, wt]
        rc, out = run(democmd, timeout=1800)
        res["demo_unchanged"] = {"exit": rc, "tail": out[-600:]}
        rc, out = run(["git", "-C", wt, "apply", os.path.join(sd, "patch.diff")])
        res["patch_applies"] = rc == 0
        if rc != 0:
            res["patch_error"] = out
        rc, out = run([PY, "-m", "compileall", "-q", "mypy", "mypyc"], cwd=wt)
        res["compiles"] = rc == 0
        rc, out = run(democmd, timeout=1800)
        res["demo_patched"] = {"exit": rc, "tail": out[-600:]}
        if tests:
            rc, out = run(f"{PY} -m pytest -q -n 12 -p no:cacheprovider {tests}", cwd=wt, timeout=3600)
            res["related_tests"] = {"args": tests, "exit": rc, "tail": out[-400:]}
        if full:
            jx = os.path.join(wt, "_junit.xml")
            rc, out = run(f"{PY} -m pytest -ra -q -p no:cacheprovider --timeout=900 --continue-on-collection-errors --junitxml={jx}", cwd=wt, timeout=7200)
            sp = set(json.load(open("/root/.vp/BASELINE.json"))["stable_pass"])
            failed, passed = set(), set()
            for tc in ET.parse(jx).getroot().iter("testcase"):
                tid = (tc.get("classname") or "") + "::" + (tc.get("name") or "")
                if any(c.tag in ("failure", "error") for c in tc):
                    failed.add(tid)
                elif not any(c.tag == "skipped" for c in tc):
                    passed.add(tid)
            res["full_suite"] = {"exit": rc, "passed": len(passed), "failed": len(failed), "stable_pass_failing": sorted(sp & failed), "stable_pass_missing": len(sp - passed - failed)}
        res["confirmed"] = bool(res["demo_unchanged"]["exit"] == 0 and res["patch_applies"] and res["compiles"] and res["demo_patched"]["exit"] != 0 and (not full or not res["full_suite"]["stable_pass_failing"]) and (not tests or res["related_tests"]["exit"] == 0))
    finally:
        subprocess.run(["git", "-C", "/repo", "worktree", "remove", "--force", wt], capture_output=True)
        shutil.rmtree(wt, ignore_errors=True)
    with open(os.path.join(sd, "confirm.json"), "w") as f:
        json.dump(res, f, indent=1)
    print(json.dumps({k: v for k, v in res.items() if k not in ("demo_unchanged", "demo_patched")}, indent=1))
    print("demo unchanged exit", res["demo_unchanged"]["exit"], "| demo patched exit", res["demo_patched"]["exit"])


if __name__ == "__main__":
    main()
