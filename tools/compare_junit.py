#!/usr/bin/env python3
"""Compare a junit file of the pinned suite with BASELINE.stable_pass.
Usage: /venv/bin/python tools/compare_junit.py <junit.xml>   (exit 0 iff every stable_pass test passed)"""
import json, sys, xml.etree.ElementTree as ET
base = json.load(open("/root/.vp/BASELINE.json"))
stable = set(base["stable_pass"])
root = ET.parse(sys.argv[1]).getroot()
status = {}
for tc in root.iter("testcase"):
    name = f"{tc.get('classname')}::{tc.get('name')}"
    bad = any(ch.tag in ("failure", "error") for ch in tc)
    skipped = any(ch.tag == "skipped" for ch in tc)
    status[name] = "fail" if bad else ("skip" if skipped else "pass")
missing = [t for t in stable if t not in status]
notpass = [t for t in stable if status.get(t) not in ("pass",) and t in status]
print(f"stable_pass: {len(stable)}; present: {len(stable) - len(missing)}; not passing: {len(notpass)}; missing: {len(missing)}")
for t in sorted(notpass)[:40]:
    print("  NOT PASSING", status[t], t)
for t in sorted(missing)[:10]:
    print("  MISSING", t)
fails = [t for t, s in status.items() if s == "fail"]
print(f"total testcases {len(status)}, failures {len(fails)} (of which in stable_pass: {len([t for t in fails if t in stable])})")
sys.exit(1 if (notpass or missing) else 0)
